// Finding F13 (C02/C05): finally()'s completion-sender receivers take an error by forwarding reference, destroy the
// completion operation (which, for just_error-like senders, is where the error object lives) and only then forward the
// reference downstream: the receiver gets a reference to a destroyed object.
// Exit 0 = the error arrived intact; 1 = the downstream receiver observed a destroyed error object.
#include <unifex/finally.hpp>
#include <unifex/just.hpp>
#include <unifex/just_done.hpp>
#include <unifex/just_error.hpp>
#include <unifex/receiver_concepts.hpp>
#include <unifex/sender_concepts.hpp>
#include <cstdio>
using namespace unifex;
struct tracked_error {
  int code; bool alive = true;
  explicit tracked_error(int c) : code(c) {}
  tracked_error(tracked_error&& o) noexcept : code(o.code) {}
  tracked_error(const tracked_error& o) : code(o.code) {}
  ~tracked_error() { alive = false; code = -1000; }   // poison: a later read shows the object was dead
};
static int seen_code = 0; static bool seen_alive = false; static int what = 0;
struct rcv {
  template <typename... V> void set_value(V&&...) && noexcept { what = 1; }
  void set_done() && noexcept { what = 2; }
  void set_error(tracked_error&& e) && noexcept { what = 3; seen_code = e.code; seen_alive = e.alive; }
  void set_error(std::exception_ptr) && noexcept { what = 4; }
};
int main() {
  int bad = 0;
  {  // source completes with value, completion sender fails with an error stored in its op state
    what = 0;
    auto op = connect(finally(just(1), just_error(tracked_error{42})), rcv{});
    start(op);
    std::printf("value path: channel=%d code=%d alive=%d (want 3, 42, 1)\n", what, seen_code, (int)seen_alive);
    if (!(what == 3 && seen_code == 42 && seen_alive)) ++bad;
  }
  {  // source completes with done, completion sender fails
    what = 0;
    auto op = connect(finally(just_done(), just_error(tracked_error{43})), rcv{});
    start(op);
    std::printf("done path : channel=%d code=%d alive=%d (want 3, 43, 1)\n", what, seen_code, (int)seen_alive);
    if (!(what == 3 && seen_code == 43 && seen_alive)) ++bad;
  }
  return bad ? 1 : 0;
}
