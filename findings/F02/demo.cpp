// Triage demo for candidate 2: thread_unsafe_event_loop timer op with stop already requested before start.
#include <unifex/thread_unsafe_event_loop.hpp>
#include <unifex/inplace_stop_token.hpp>
#include <unifex/scheduler_concepts.hpp>
#include <unifex/sender_concepts.hpp>
#include <unifex/receiver_concepts.hpp>
#include <chrono>
#include <cstdio>
#include <cstring>
#include <new>
using namespace unifex;
struct rcv {
  inplace_stop_token tok; int* out;
  void set_value() && noexcept { *out = 1; }
  void set_done() && noexcept { *out = 2; }
  template <typename E> void set_error(E&&) && noexcept { *out = 3; }
  friend inplace_stop_token tag_invoke(tag_t<get_stop_token>, const rcv& r) noexcept { return r.tok; }
};
int main() {
  thread_unsafe_event_loop loop;
  inplace_stop_source src; src.request_stop();
  int out = 0;
  auto snd = schedule_after(loop.get_scheduler(), std::chrono::seconds(3600));
  using op_t = decltype(connect(snd, rcv{src.get_token(), &out}));
  alignas(op_t) unsigned char buf[sizeof(op_t)];
  std::memset(buf, 0xAB, sizeof(buf));     // poison: garbage non-null link pointers
  auto* op = new (buf) op_t(connect(snd, rcv{src.get_token(), &out}));
  start(*op);   // callback runs inline: reads prevPtr_ (0xABAB...) and writes through it
  std::printf("started; out=%d\n", out);
  return 0;
}
