// Finding F08 (C12): bulk_schedule's schedule receiver and stop_immediately's cleanup receiver do not
// forward receiver queries to the receivers they wrap, so a query issued by the child operation
// (here: a custom query CPO with a default, and get_stop_token) never reaches the consumer's receiver.
// Exit code 0 = queries forwarded (property holds), 1 = not forwarded.
#include <unifex/bulk_schedule.hpp>
#include <unifex/bulk_join.hpp>
#include <unifex/bulk_transform.hpp>
#include <unifex/stop_immediately.hpp>
#include <unifex/range_stream.hpp>
#include <unifex/reduce_stream.hpp>
#include <unifex/just.hpp>
#include <unifex/just_done.hpp>
#include <unifex/sync_wait.hpp>
#include <unifex/with_query_value.hpp>
#include <unifex/inplace_stop_token.hpp>
#include <unifex/tag_invoke.hpp>
#include <cstdio>
using namespace unifex;

// a user-defined receiver query with a default answer
inline constexpr struct get_magic_fn {
  template <typename R>
  int operator()(const R& r) const noexcept {
    if constexpr (is_tag_invocable_v<get_magic_fn, const R&>) return tag_invoke(*this, r);
    else return 0;
  }
} get_magic{};
namespace unifex { template <> inline constexpr bool is_receiver_query_cpo_v<get_magic_fn> = true; }

static int seen_by_schedule_child = -1;
static int seen_by_cleanup_child = -1;

template <int* Seen>
struct probe_sender {
  template <template <typename...> class V, template <typename...> class T> using value_types = V<T<>>;
  template <template <typename...> class V> using error_types = V<>;
  static constexpr bool sends_done = true;
  template <typename R> struct op {
    R r;
    void start() noexcept { *Seen = get_magic(r); unifex::set_value(std::move(r)); }
  };
  template <typename R> op<remove_cvref_t<R>> connect(R&& r) const { return op<remove_cvref_t<R>>{(R&&)r}; }
};
struct probe_scheduler {
  probe_sender<&seen_by_schedule_child> schedule() const noexcept { return {}; }
  friend bool operator==(probe_scheduler, probe_scheduler) noexcept { return true; }
  friend bool operator!=(probe_scheduler, probe_scheduler) noexcept { return false; }
};
template <int* Seen>
struct done_probe_sender {
  template <template <typename...> class V, template <typename...> class T> using value_types = V<>;
  template <template <typename...> class V> using error_types = V<>;
  static constexpr bool sends_done = true;
  template <typename R> struct op {
    R r;
    void start() noexcept { *Seen = get_magic(r); unifex::set_done(std::move(r)); }
  };
  template <typename R> op<remove_cvref_t<R>> connect(R&& r) const { return op<remove_cvref_t<R>>{(R&&)r}; }
};
struct probe_stream {
  range_stream inner{0, 2};
  friend auto tag_invoke(tag_t<next>, probe_stream& s) { return next(s.inner); }
  friend auto tag_invoke(tag_t<cleanup>, probe_stream&) { return done_probe_sender<&seen_by_cleanup_child>{}; }
};

int main() {
  sync_wait(with_query_value(bulk_join(bulk_transform(bulk_schedule(probe_scheduler{}, 4), [](int) noexcept {}, unifex::par_unseq)), get_magic, 42));
  sync_wait(with_query_value(
      reduce_stream(stop_immediately<int>(probe_stream{}), 0, [](int a, int b) { return a + b; }), get_magic, 42));
  std::printf("bulk_schedule child saw magic=%d (want 42); stop_immediately cleanup child saw magic=%d (want 42)\n",
              seen_by_schedule_child, seen_by_cleanup_child);
  return (seen_by_schedule_child == 42 && seen_by_cleanup_child == 42) ? 0 : 1;
}
