// Finding F14 (C15/C16): completion_forwarder hops to the receiver's scheduler with a receiver that forwards
// get_stop_token, so a stop-aware scheduler can cancel the hop *after* the operation has won its election.
// For the v2 async_mutex this means: a waiter that was popped from the queue (it now owns the mutex) completes
// with set_done and the mutex stays locked forever.
// Exit 0 = the mutex is usable again after the waiter completed; 1 = the lock was leaked.
#include <unifex/v2/async_mutex.hpp>
#include <unifex/inline_scheduler.hpp>
#include <unifex/receiver_concepts.hpp>
#include <unifex/sender_concepts.hpp>
#include <unifex/scheduler_concepts.hpp>
#include <cstdio>
using namespace unifex;

static bool g_stop = false;
// a stop token whose stop arrives "too late" for the cancellation callback (it never runs callbacks),
// but whose stop_requested() is observed by anyone polling it afterwards
struct late_token {
  template <typename F> struct callback_type { template <typename T> callback_type(late_token, T&&) noexcept {} };
  bool stop_requested() const noexcept { return g_stop; }
  bool stop_possible() const noexcept { return true; }
};
struct rcv {
  int* out;
  void set_value() && noexcept { *out = 1; }
  void set_done() && noexcept { *out = 2; }
  template <typename E> void set_error(E&&) && noexcept { *out = 3; }
  friend inline_scheduler tag_invoke(tag_t<get_scheduler>, const rcv&) noexcept { return {}; }
  friend late_token tag_invoke(tag_t<get_stop_token>, const rcv&) noexcept { return {}; }
};
int main() {
  v2::async_mutex m;
  if (!m.try_lock()) return 2;               // A holds the mutex
  int out = 0;
  auto op = connect(m.async_lock(), rcv{&out});
  start(op);                                  // B queues behind A
  g_stop = true;                              // stop is requested on B's token, but too late to dequeue B ...
  m.unlock();                                 // ... A unlocks: B is popped and now owns the mutex, then hops via its scheduler
  std::printf("waiter completed with %s\n", out == 1 ? "value (owns the lock)" : out == 2 ? "done" : "?");
  bool usable = false;
  if (out == 1) { m.unlock(); usable = m.try_lock(); }       // holder releases normally
  else usable = m.try_lock();                                 // completed with done: it must not own the lock
  std::printf("mutex can be acquired again: %s\n", usable ? "yes" : "NO - lock leaked");
  return usable ? 0 : 1;
}
