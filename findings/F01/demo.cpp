// Triage demo for candidate 1: take_until cleanup op destroys sourceOp_ twice / triggerOp_ never.
#include <unifex/take_until.hpp>
#include <unifex/range_stream.hpp>
#include <unifex/single.hpp>
#include <unifex/never.hpp>
#include <unifex/just.hpp>
#include <unifex/just_done.hpp>
#include <unifex/sync_wait.hpp>
#include <unifex/for_each.hpp>
#include <unifex/stream_concepts.hpp>
#include <cstdio>
using namespace unifex;
static int srcCleanupOpDtors = 0, trgCleanupOpDtors = 0, srcCtor = 0, trgCtor = 0;
template <int* Ctor, int* Dtor>
struct counting_done_sender {
  template <template <typename...> class V, template <typename...> class T> using value_types = V<>;
  template <template <typename...> class V> using error_types = V<>;
  static constexpr bool sends_done = true;
  template <typename R> struct op {
    R r; bool alive = true;
    explicit op(R&& rr) : r((R&&)rr) { ++*Ctor; }
    op(op&&) = delete;
    ~op() { ++*Dtor; }
    void start() noexcept { unifex::set_done(std::move(r)); }
  };
  template <typename R> op<remove_cvref_t<R>> connect(R&& r) const { return op<remove_cvref_t<R>>{(R&&)r}; }
};
template <int* Ctor, int* Dtor>
struct my_stream {
  range_stream inner{0, 3};
  friend auto tag_invoke(tag_t<next>, my_stream& s) { return next(s.inner); }
  friend auto tag_invoke(tag_t<cleanup>, my_stream&) { return counting_done_sender<Ctor, Dtor>{}; }
};
struct trig_stream {
  friend auto tag_invoke(tag_t<next>, trig_stream&) { return just_done(); }
  friend auto tag_invoke(tag_t<cleanup>, trig_stream&) { return counting_done_sender<&trgCtor, &trgCleanupOpDtors>{}; }
};
int main() {
  auto s = take_until(my_stream<&srcCtor, &srcCleanupOpDtors>{}, trig_stream{});
  sync_wait(for_each(std::move(s), [](int) {}));
  std::printf("source cleanup op: ctor=%d dtor=%d ; trigger cleanup op: ctor=%d dtor=%d\n", srcCtor, srcCleanupOpDtors, trgCtor, trgCleanupOpDtors);
  return (srcCleanupOpDtors == srcCtor && trgCleanupOpDtors == trgCtor) ? 0 : 1;
}
