#include <unifex/just.hpp>
#include <unifex/then.hpp>
#include <unifex/let_value.hpp>
#include <unifex/sequence.hpp>
#include <unifex/when_all.hpp>
#include <unifex/finally.hpp>
#include <unifex/stop_when.hpp>
#include <unifex/let_done.hpp>
#include <unifex/let_error.hpp>
#include <unifex/materialize.hpp>
#include <unifex/dematerialize.hpp>
#include <unifex/retry_when.hpp>
#include <unifex/repeat_effect_until.hpp>
#include <unifex/with_query_value.hpp>
#include <unifex/unstoppable.hpp>
#include <unifex/inline_scheduler.hpp>
#include <unifex/scheduler_concepts.hpp>
#include <unifex/get_allocator.hpp>
#include <unifex/get_stop_token.hpp>
#include <unifex/sender_concepts.hpp>
#include <unifex/receiver_concepts.hpp>
#include <memory>
namespace vp {
using namespace unifex;
template <int N> struct tag_value { };
// custom query CPO
inline constexpr struct probe_query_fn {
  template <typename R>
  auto operator()(const R& r) const noexcept -> tag_invoke_result_t<probe_query_fn, const R&> { return tag_invoke(*this, r); }
} probe_query{};
struct probe_sched : inline_scheduler { };  // distinct type
template <typename T> struct probe_alloc : std::allocator<T> { template <typename U> struct rebind { using other = probe_alloc<U>; }; probe_alloc()=default; template<typename U> probe_alloc(const probe_alloc<U>&){} };
struct probe_token : inplace_stop_token {};
struct root_receiver {
  void set_value(auto&&...) && noexcept {}
  template <typename E> void set_error(E&&) && noexcept {}
  void set_done() && noexcept {}
  friend tag_value<7> tag_invoke(tag_t<probe_query>, const root_receiver&) noexcept { return {}; }
  friend probe_sched tag_invoke(tag_t<get_scheduler>, const root_receiver&) noexcept { return {}; }
  friend probe_alloc<char> tag_invoke(tag_t<get_allocator>, const root_receiver&) noexcept { return {}; }
  friend inplace_stop_token tag_invoke(tag_t<get_stop_token>, const root_receiver&) noexcept { return {}; }
};
template <typename Expect>
struct leaf {
  template <template <typename...> class V, template <typename...> class T> using value_types = V<T<>>;
  template <template <typename...> class V> using error_types = V<std::exception_ptr>;
  static constexpr bool sends_done = true;
  template <typename R> struct op { R r; void start() noexcept { unifex::set_value(std::move(r)); } };
  template <typename R>
  friend op<remove_cvref_t<R>> tag_invoke(tag_t<connect>, leaf, R&& r) {
    using RR = remove_cvref_t<R>;
    static_assert(std::is_invocable_v<tag_t<probe_query>, const RR&>, "custom query not forwarded");
    static_assert(std::is_same_v<decltype(probe_query(std::declval<const RR&>())), tag_value<7>>);
    static_assert(std::is_same_v<remove_cvref_t<decltype(get_scheduler(std::declval<const RR&>()))>, probe_sched>, "scheduler not forwarded");
    static_assert(std::is_same_v<remove_cvref_t<decltype(get_allocator(std::declval<const RR&>()))>, probe_alloc<char>>, "allocator not forwarded");
    static_assert(std::is_same_v<remove_cvref_t<decltype(get_stop_token(std::declval<const RR&>()))>, typename Expect::token>, "stop token");
    return {(R&&)r};
  }
};
struct same_token { using token = inplace_stop_token; };
struct unstop { using token = unstoppable_token; };
template <typename S> void check(S&& s) { auto op = connect((S&&)s, root_receiver{}); (void)op; }
void all() {
  leaf<same_token> L;
  check(then(L, []{}));
  check(let_value(L, []{ return just(); }));
  check(let_value(just(), [=]{ return L; }));
  check(sequence(L, L));
  check(when_all(L, L));
  check(finally(L, L));
  check(stop_when(L, L));
  check(let_done(L, []{ return just(); }));
  check(let_error(L, [](auto&&){ return just(); }));
  check(dematerialize(materialize(L)));
  check(repeat_effect_until(L, []{ return true; }));
  check(retry_when(L, [](auto&&){ return just(); }));
  check(unstoppable(leaf<unstop>{}));
}
}
int main(){}
