// F15 (triage demo, not part of any check): bulk_transform's connect() customisation declares itself noexcept
// without considering the connect of its source.  A source whose connect throws (documented: the exception
// propagates out of connect) therefore hits std::terminate when wrapped in bulk_transform.
//   g++ -std=gnu++17 -I/repo/include findings/F15/demo.cpp /repo/source/*.cpp -lpthread -o /tmp/f15 && /tmp/f15
#include <unifex/bulk_transform.hpp>
#include <unifex/bulk_join.hpp>
#include <unifex/execution_policy.hpp>
#include <unifex/sender_concepts.hpp>
#include <unifex/receiver_concepts.hpp>
#include <cstdio>
#include <cstdlib>
#include <exception>
#include <stdexcept>
using namespace unifex;
struct throwing_source {
  template <template <typename...> class V, template <typename...> class T> using value_types = V<T<>>;
  template <template <typename...> class V> using error_types = V<std::exception_ptr>;
  template <template <typename...> class V, template <typename...> class T> using next_types = V<T<int>>;   // bulk (many-) sender
  static constexpr bool sends_done = true;
  struct op { void start() noexcept {} };
  template <typename R>
  friend op tag_invoke(tag_t<connect>, throwing_source, R&&) { throw std::runtime_error("connect failed"); }
};
struct bulk_receiver {
  void set_next(int) noexcept {}
  void set_value() && noexcept {}
  template <typename E> void set_error(E&&) && noexcept {}
  void set_done() && noexcept {}
};
int main() {
  std::set_terminate([] { std::puts("FAIL: std::terminate"); std::fflush(stdout); std::_Exit(1); });
  auto s = bulk_transform(throwing_source{}, [](int i) noexcept { return i; }, par);
  static_assert(!is_nothrow_connectable_v<throwing_source, bulk_receiver>);
  std::printf("is_nothrow_connectable_v<bulk_transform(...), receiver> = %d (must be 0)\n", (int)is_nothrow_connectable_v<decltype(s), bulk_receiver>);
  try {
    auto op = connect(std::move(s), bulk_receiver{});
    (void)op;
    std::puts("FAIL: no exception");
    return 1;
  } catch (const std::runtime_error& e) {
    std::printf("OK: exception propagated out of connect: %s\n", e.what());
    return 0;
  }
}
