// Triage demo for candidate 3: v2 async_manual_reset_event never destroys its reschedule operation.
#include <unifex/v2/async_manual_reset_event.hpp>
#include <unifex/scheduler_concepts.hpp>
#include <unifex/receiver_concepts.hpp>
#include <unifex/sender_concepts.hpp>
#include <cstdio>
using namespace unifex;
static int opCtor = 0, opDtor = 0;
struct counting_scheduler {
  struct sender {
    template <template <typename...> class V, template <typename...> class T> using value_types = V<T<>>;
    template <template <typename...> class V> using error_types = V<>;
    static constexpr bool sends_done = false;
    template <typename R> struct op {
      R r;
      explicit op(R&& rr) : r((R&&)rr) { ++opCtor; }
      op(op&&) = delete;
      ~op() { ++opDtor; }
      void start() noexcept { unifex::set_value(std::move(r)); }
    };
    template <typename R> op<remove_cvref_t<R>> connect(R&& r) const { return op<remove_cvref_t<R>>{(R&&)r}; }
  };
  sender schedule() const noexcept { return {}; }
  friend bool operator==(counting_scheduler, counting_scheduler) noexcept { return true; }
  friend bool operator!=(counting_scheduler, counting_scheduler) noexcept { return false; }
};
struct rcv {
  int* out;
  void set_value() && noexcept { *out = 1; }
  void set_done() && noexcept { *out = 2; }
  template <typename E> void set_error(E&&) && noexcept { *out = 3; }
  friend counting_scheduler tag_invoke(tag_t<get_scheduler>, const rcv&) noexcept { return {}; }
};
int main() {
  v2::async_manual_reset_event evt;
  int out = 0;
  {
    auto op = connect(evt.async_wait(), rcv{&out});
    start(op);
    evt.set();
  }
  std::printf("out=%d reschedule op: ctor=%d dtor=%d\n", out, opCtor, opDtor);
  return opCtor == opDtor ? 0 : 1;
}
