// Finding F07 (C02/C04/C14): io_epoll_context read/write operations never destroy the stop callback they
// registered when the operation is cancelled before the descriptor became ready (request_stop ->
// complete_with_done path).  The stop token below counts callback construction/destruction.
// Exit 0 = every constructed callback was destroyed, 1 = a callback object was never destroyed.
#include <unifex/linux/io_epoll_context.hpp>
#include <unifex/inplace_stop_token.hpp>
#include <unifex/receiver_concepts.hpp>
#include <unifex/sender_concepts.hpp>
#include <unifex/manual_lifetime.hpp>
#include <unifex/span.hpp>
#include <atomic>
#include <chrono>
#include <cstdio>
#include <thread>
using namespace unifex;
using namespace unifex::linuxos;

static std::atomic<int> cbCtor{0}, cbDtor{0};
// a stop token wrapping inplace_stop_token whose callbacks count their lifetime
struct counting_token {
  inplace_stop_token tok;
  template <typename F>
  struct callback_type {
    inplace_stop_callback<F> cb;
    template <typename F2>
    callback_type(counting_token t, F2&& f) : cb(t.tok, (F2&&)f) { ++cbCtor; }
    ~callback_type() { ++cbDtor; }
  };
  bool stop_requested() const noexcept { return tok.stop_requested(); }
  bool stop_possible() const noexcept { return tok.stop_possible(); }
};
struct rcv {
  inplace_stop_source* src; std::atomic<int>* out;
  void set_value(ssize_t) && noexcept { *out = 1; }
  void set_done() && noexcept { *out = 2; }
  template <typename E> void set_error(E&&) && noexcept { *out = 3; }
  friend counting_token tag_invoke(tag_t<get_stop_token>, const rcv& r) noexcept { return {r.src->get_token()}; }
};
int main() {
  io_epoll_context ctx;
  inplace_stop_source ctxStop;
  std::thread t{[&] { ctx.run(ctxStop.get_token()); }};
  auto sched = ctx.get_scheduler();
  auto [rd, wr] = open_pipe(sched);
  char buf[1];
  inplace_stop_source src; std::atomic<int> out{0};
  {
    auto op = connect(async_read_some(rd, as_writable_bytes(span{buf, 1})), rcv{&src, &out});
    start(op);
    std::this_thread::sleep_for(std::chrono::milliseconds(100));   // the read is now parked in epoll (EAGAIN path)
    src.request_stop();                                            // remote cancel -> complete_with_done on the io thread
    while (out.load() == 0) std::this_thread::sleep_for(std::chrono::milliseconds(1));
  }  // operation destroyed
  ctxStop.request_stop(); t.join();
  std::printf("completed with %s; stop callback objects: constructed=%d destroyed=%d\n", out == 2 ? "done" : "other", cbCtor.load(), cbDtor.load());
  return cbCtor.load() == cbDtor.load() ? 0 : 1;
}
