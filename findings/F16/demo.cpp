// F16 (triage demo, not part of any check): when_all_range's connect() customisation accepts an lvalue sender but
// std::move()s the vector of child senders out of it.  Connecting the same lvalue sender a second time (sync_wait(s)
// twice, the second iteration of repeat_effect_until / retry_when) runs zero children and reports an empty result.
//   g++ -std=gnu++17 -w -I/repo/include findings/F16/demo.cpp /repo/source/*.cpp -lpthread -o /tmp/f16 && /tmp/f16
#include <unifex/when_all_range.hpp>
#include <unifex/just.hpp>
#include <unifex/sync_wait.hpp>
#include <cstdio>
#include <string>
#include <vector>
using namespace unifex;
int main() {
  using J = decltype(just(std::string()));
  std::vector<J> v;
  v.push_back(just(std::string("a fairly long string number one, beyond the small-string buffer")));
  v.push_back(just(std::string("a fairly long string number two, beyond the small-string buffer")));
  auto s = when_all_range(std::move(v));
  auto r1 = sync_wait(s);           // lvalue: must not consume s
  auto r2 = sync_wait(s);
  std::size_t l1 = r1 ? (*r1)[0].size() : 0, l2 = r2 ? (*r2)[0].size() : 0;
  std::printf("first run: element 0 has %zu chars, second run: %zu chars (must be equal)\n", l1, l2);
  if (l1 != l2) { std::puts("FAIL: connecting the lvalue when_all_range sender moved the children's values out of it"); return 1; }
  std::puts("OK");
  return 0;
}
