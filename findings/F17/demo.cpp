// F17 (triage demo, not part of any check): with UNIFEX_ENABLE_CONTINUATION_VISITATIONS the receivers of stop_when and
// let_value_with_stop_source did not customise visit_continuations, so a walk over the continuation chain (async_trace)
// started inside one of their children stopped at that adaptor instead of reaching the consumer's receiver.
//   g++ -std=gnu++17 -w -DUNIFEX_ENABLE_CONTINUATION_VISITATIONS=1 -I/repo/include findings/F17/demo.cpp /repo/source/*.cpp -lpthread -o /tmp/f17 && /tmp/f17
#include <unifex/continuations.hpp>
#include <unifex/stop_when.hpp>
#include <unifex/let_value_with_stop_source.hpp>
#include <unifex/then.hpp>
#include <unifex/just.hpp>
#include <unifex/never.hpp>
#include <unifex/sender_concepts.hpp>
#include <cstdio>
#include <exception>
using namespace unifex;
struct root_receiver {
  template <typename... V> void set_value(V&&...) && noexcept {}
  template <typename E> void set_error(E&&) && noexcept {}
  void set_done() && noexcept {}
};
static int depth = 0; static bool reachedRoot = false;
struct walker {
  template <typename C> void operator()(const C& c) const {
    ++depth;
    if constexpr (std::is_same_v<C, root_receiver>) reachedRoot = true;
    else visit_continuations(c, walker{});
  }
};
// a leaf that walks the continuation chain from the receiver it is given when it is started
struct tracing_leaf {
  template <template <typename...> class V, template <typename...> class T> using value_types = V<T<>>;
  template <template <typename...> class V> using error_types = V<std::exception_ptr>;
  static constexpr bool sends_done = true;
  template <typename R> struct op {
    R r;
    void start() noexcept { depth = 0; reachedRoot = false; visit_continuations(std::as_const(r), walker{}); unifex::set_value(std::move(r)); }
  };
  template <typename R> friend op<remove_cvref_t<R>> tag_invoke(tag_t<connect>, tracing_leaf, R&& r) { return {(R&&)r}; }
};
template <typename S> bool run(const char* what, S s) {
  auto op = connect(std::move(s), root_receiver{});
  start(op);
  std::printf("%-40s chain length %d, reaches the consumer's receiver: %s\n", what, depth, reachedRoot ? "yes" : "NO");
  return reachedRoot;
}
int main() {
  bool ok = true;
  ok &= run("then(leaf)", then(tracing_leaf{}, [] {}));
  ok &= run("stop_when(leaf, never)", stop_when(tracing_leaf{}, never_sender{}));
  ok &= run("let_value_with_stop_source(leaf)", let_value_with_stop_source([](auto&) { return tracing_leaf{}; }));
  std::puts(ok ? "OK" : "FAIL: a continuation walk stops short of the root receiver");
  return ok ? 0 : 1;
}
