// Triage demo for candidate 5: after stop_when has completed its receiver (via the stop-callback
// path), destroying the operation still touches the receiver's stop source.
// Control: the same scenario with when_all does not.
#include <unifex/stop_when.hpp>
#include <unifex/when_all.hpp>
#include <unifex/never.hpp>
#include <unifex/just_void_or_never.hpp>
#include <unifex/inplace_stop_token.hpp>
#include <unifex/receiver_concepts.hpp>
#include <unifex/sender_concepts.hpp>
#include <cstdio>
#include <memory>
#include <unifex/manual_lifetime.hpp>
using namespace unifex;
struct rcv {
  inplace_stop_source* src; int* out;
  void set_value(auto&&...) && noexcept { *out = 1; }
  void set_done() && noexcept { *out = 2; }
  template <typename E> void set_error(E&&) && noexcept { *out = 3; }
  friend inplace_stop_token tag_invoke(tag_t<get_stop_token>, const rcv& r) noexcept { return r.src->get_token(); }
};
template <typename MakeSender>
void scenario(const char* name, MakeSender make) {
  auto src = std::make_unique<inplace_stop_source>();
  int out = 0;
  using op_t = decltype(connect(make(), rcv{src.get(), &out}));
  manual_lifetime<op_t> op;
  op.construct_with([&] { return connect(make(), rcv{src.get(), &out}); });
  start(op.get());
  src->request_stop();            // completes the receiver with done, inside the stop callback
  std::printf("%s: receiver completed, out=%d; destroying the stop source, then the operation\n", name, out);
  src.reset();                    // the receiver has been completed: its source may go away
  op.destruct();                  // ... but the operation still deregisters from it
  std::printf("%s: ok\n", name);
}
int main() {
  setvbuf(stdout, nullptr, _IONBF, 0);
  scenario("when_all ", [] { return when_all(just_void_or_never(false), just_void_or_never(false)); });
  scenario("stop_when", [] { return stop_when(just_void_or_never(false), just_void_or_never(false)); });
}
