// Finding F04 (C02/C10): a nothrow_task<T> stores its co_return value in a manual_lifetime<T> that is
// constructed and never destructed: the result object's destructor never runs.
// Exit 0 = every constructed Tracked object was destroyed, 1 = one was not.
#include <unifex/task.hpp>
#include <unifex/sync_wait.hpp>
#include <cstdio>
using namespace unifex;
static int ctors = 0, dtors = 0;
struct Tracked {
  Tracked() { ++ctors; }
  Tracked(const Tracked&) { ++ctors; }     // no move constructor: "moving" copies, the source must still be destroyed
  ~Tracked() { ++dtors; }
};
nothrow_task<Tracked> make() { co_return Tracked{}; }
task<Tracked> make_throwing() { co_return Tracked{}; }
int main() {
  { auto r = sync_wait(make_throwing()); (void)r; }
  std::printf("task<T>        : constructed=%d destroyed=%d\n", ctors, dtors);
  int c0 = ctors, d0 = dtors;
  { auto r = sync_wait(make()); (void)r; }
  std::printf("nothrow_task<T>: constructed=%d destroyed=%d\n", ctors - c0, dtors - d0);
  return (ctors == dtors) ? 0 : 1;
}
