// usa-extract (prototype): emits an "event CFG" for every function body found in
// files under a given path prefix, for template patterns and ordinary functions.
#include "clang/AST/ASTConsumer.h"
#include "clang/AST/ExprCXX.h"
#include "clang/AST/RecursiveASTVisitor.h"
#include "clang/AST/StmtCXX.h"
#include "clang/Analysis/CFG.h"
#include "clang/Frontend/CompilerInstance.h"
#include "clang/Frontend/FrontendAction.h"
#include "clang/Lex/Lexer.h"
#include "clang/Tooling/CommonOptionsParser.h"
#include "clang/Tooling/Tooling.h"
#include "llvm/Support/CommandLine.h"
#include "llvm/Support/JSON.h"
#include <map>
#include <set>
using namespace clang;
namespace json = llvm::json;
static llvm::cl::OptionCategory Cat("usa");
static llvm::cl::opt<std::string> Prefix("usa-prefix", llvm::cl::desc("only functions in files with this path prefix"), llvm::cl::init("/repo/"), llvm::cl::cat(Cat));
static llvm::cl::opt<std::string> Out("usa-out", llvm::cl::desc("output json"), llvm::cl::init("-"), llvm::cl::cat(Cat));

namespace {
struct Ctx {
  ASTContext& C;
  SourceManager& SM;
  std::map<const Stmt*, int> eid;  // call-like expr -> event id (per function)
  int nextEid = 0;
  std::vector<const LambdaExpr*> lambdas;  // discovered lambdas (to extract bodies)
  std::set<const Stmt*> uneval;            // statements inside unevaluated operands
  explicit Ctx(ASTContext& c) : C(c), SM(c.getSourceManager()) {}
};

std::string locStr(Ctx& X, SourceLocation L) {
  if (L.isInvalid()) return "?";
  SourceLocation S = X.SM.getExpansionLoc(L);
  return (X.SM.getFilename(S) + ":" + llvm::Twine(X.SM.getExpansionLineNumber(S))).str();
}
int lineOf(Ctx& X, SourceLocation L) { return L.isInvalid() ? 0 : (int)X.SM.getExpansionLineNumber(L); }
std::string macroOf(Ctx& X, SourceLocation L) {
  // outermost macro name this location is expanded from (if any)
  std::string name;
  while (L.isMacroID()) {
    name = Lexer::getImmediateMacroName(L, X.SM, X.C.getLangOpts()).str();
    L = X.SM.getImmediateMacroCallerLoc(L);
  }
  return name;
}
QualType canon(QualType T) { return T.isNull() ? T : T.getCanonicalType(); }
std::string typeStr(QualType T, ASTContext& C) {
  if (T.isNull()) return "?";
  PrintingPolicy P(C.getLangOpts());
  P.SuppressTagKeyword = true;
  return T.getAsString(P);
}

std::string pathOf(Ctx& X, const Expr* E, int depth = 0);

bool isTransparent(const std::string& n) {
  static const std::set<std::string> S = {"move", "forward", "as_const", "addressof", "launder"};
  std::string b = n;
  auto p = b.rfind("::");
  if (p != std::string::npos) b = b.substr(p + 2);
  if (!b.empty() && b[0] == '?') b = b.substr(1);
  return S.count(b) > 0;
}

json::Object calleeOf(Ctx& X, const Expr* callee) {
  json::Object o;
  callee = callee->IgnoreParenImpCasts();
  if (auto* d = dyn_cast<DeclRefExpr>(callee)) {
    const ValueDecl* vd = d->getDecl();
    o["qname"] = vd->getQualifiedNameAsString();
    o["name"] = vd->getNameAsString();
    if (isa<VarDecl>(vd)) {
      o["kind"] = (isa<ParmVarDecl>(vd) || cast<VarDecl>(vd)->isLocalVarDecl()) ? "localvar" : "var";
      o["vartype"] = typeStr(canon(vd->getType()), X.C);
    } else if (isa<FunctionDecl>(vd)) o["kind"] = "func";
    else o["kind"] = "decl";
    return o;
  }
  if (auto* u = dyn_cast<UnresolvedLookupExpr>(callee)) {
    std::string q;
    if (auto* nns = u->getQualifier()) { llvm::raw_string_ostream os(q); nns->print(os, PrintingPolicy(X.C.getLangOpts())); }
    o["kind"] = "unresolved"; o["name"] = u->getName().getAsString(); o["qname"] = q + u->getName().getAsString();
    return o;
  }
  if (auto* m = dyn_cast<MemberExpr>(callee)) {
    o["kind"] = "member"; o["name"] = m->getMemberDecl()->getNameAsString();
    o["qname"] = m->getMemberDecl()->getQualifiedNameAsString();
    o["base"] = pathOf(X, m->getBase());
    o["basetype"] = typeStr(canon(m->getBase()->getType()), X.C);
    return o;
  }
  if (auto* m = dyn_cast<CXXDependentScopeMemberExpr>(callee)) {
    o["kind"] = "dep_member"; o["name"] = m->getMember().getAsString();
    o["base"] = m->isImplicitAccess() ? std::string("this") : pathOf(X, m->getBase());
    return o;
  }
  if (auto* m = dyn_cast<UnresolvedMemberExpr>(callee)) {
    o["kind"] = "dep_member"; o["name"] = m->getMemberName().getAsString();
    o["base"] = m->isImplicitAccess() ? std::string("this") : pathOf(X, m->getBase());
    return o;
  }
  if (auto* d = dyn_cast<DependentScopeDeclRefExpr>(callee)) {
    std::string q; if (auto* nns = d->getQualifier()) { llvm::raw_string_ostream os(q); nns->print(os, PrintingPolicy(X.C.getLangOpts())); }
    o["kind"] = "dep_scope"; o["name"] = d->getDeclName().getAsString(); o["qname"] = q + d->getDeclName().getAsString();
    return o;
  }
  o["kind"] = "expr"; o["name"] = pathOf(X, callee); o["cls"] = callee->getStmtClassName();
  return o;
}

std::string calleeName(Ctx& X, const Expr* callee) {
  json::Object o = calleeOf(X, callee);
  if (auto q = o.getString("qname")) return q->str();
  if (auto n = o.getString("name")) return n->str();
  return "?";
}

std::string pathOf(Ctx& X, const Expr* E, int depth) {
  if (!E || depth > 16) return "?";
  E = E->IgnoreParenImpCasts();
  if (isa<CXXThisExpr>(E)) return "this";
  if (auto* d = dyn_cast<DeclRefExpr>(E)) {
    if (isa<EnumConstantDecl>(d->getDecl())) return "#" + d->getDecl()->getNameAsString();
    if (isa<FunctionDecl>(d->getDecl())) return "&" + d->getDecl()->getQualifiedNameAsString();
    return d->getDecl()->getNameAsString();
  }
  if (auto* m = dyn_cast<MemberExpr>(E)) {
    std::string nm = m->getMemberDecl()->getNameAsString();
    if (nm.empty()) return pathOf(X, m->getBase(), depth + 1);
    return pathOf(X, m->getBase(), depth + 1) + "." + nm;
  }
  if (auto* m = dyn_cast<CXXDependentScopeMemberExpr>(E)) {
    if (m->isImplicitAccess() && m->getQualifier()) {
      std::string q; llvm::raw_string_ostream os(q); m->getQualifier()->print(os, PrintingPolicy(X.C.getLangOpts()));
      return "#" + os.str() + m->getMember().getAsString();
    }
    return (m->isImplicitAccess() ? std::string("this") : pathOf(X, m->getBase(), depth + 1)) + "." + m->getMember().getAsString();
  }
  if (auto* m = dyn_cast<UnresolvedMemberExpr>(E))
    return (m->isImplicitAccess() ? std::string("this") : pathOf(X, m->getBase(), depth + 1)) + "." + m->getMemberName().getAsString();
  if (auto* d = dyn_cast<DependentScopeDeclRefExpr>(E)) {
    std::string q; if (auto* nns = d->getQualifier()) { llvm::raw_string_ostream os(q); nns->print(os, PrintingPolicy(X.C.getLangOpts())); }
    return "#" + q + d->getDeclName().getAsString();
  }
  if (auto* u = dyn_cast<UnaryOperator>(E)) {
    if (u->getOpcode() == UO_Deref || u->getOpcode() == UO_AddrOf) return pathOf(X, u->getSubExpr(), depth + 1);
  }
  if (auto* c = dyn_cast<ExplicitCastExpr>(E)) return pathOf(X, c->getSubExpr(), depth + 1);
  if (auto* c = dyn_cast<CXXBindTemporaryExpr>(E)) return pathOf(X, c->getSubExpr(), depth + 1);
  if (auto* c = dyn_cast<MaterializeTemporaryExpr>(E)) return pathOf(X, c->getSubExpr(), depth + 1);
  if (auto* c = dyn_cast<CXXOperatorCallExpr>(E)) {
    if ((c->getOperator() == OO_Star || c->getOperator() == OO_Arrow) && c->getNumArgs() == 1) return pathOf(X, c->getArg(0), depth + 1);
    if (c->getOperator() == OO_Subscript && c->getNumArgs() == 2) return pathOf(X, c->getArg(0), depth + 1) + "[]";
  }
  if (auto* as = dyn_cast<ArraySubscriptExpr>(E)) return pathOf(X, as->getLHS(), depth + 1) + "[]";
  if (auto* c = dyn_cast<CallExpr>(E)) {
    std::string n = calleeName(X, c->getCallee());
    if (isTransparent(n) && c->getNumArgs() >= 1) return pathOf(X, c->getArg(0), depth + 1);
    json::Object co = calleeOf(X, c->getCallee());
    auto k = co.getString("kind");
    if (k && (*k == "member" || *k == "dep_member")) {
      std::string nm = co.getString("name")->str();
      std::string base = co.getString("base")->str();
      if (nm == "get" || nm == "get_receiver" || nm == "value") return base + "." + nm + "()";
      return base + "." + nm + "()";
    }
    return n + "()";
  }
  if (auto* c = dyn_cast<CXXUnresolvedConstructExpr>(E)) { if (c->getNumArgs() == 1) return pathOf(X, c->getArg(0), depth + 1); return "<ctor " + typeStr(c->getTypeAsWritten(), X.C) + ">"; }
  if (auto* c = dyn_cast<CXXConstructExpr>(E)) { if (c->getNumArgs() == 1) return pathOf(X, c->getArg(0), depth + 1); return "<ctor " + typeStr(c->getType(), X.C) + ">"; }
  if (auto* c = dyn_cast<CXXFunctionalCastExpr>(E)) return pathOf(X, c->getSubExpr(), depth + 1);
  if (auto* pl = dyn_cast<ParenListExpr>(E)) { if (pl->getNumExprs() == 1) return pathOf(X, pl->getExpr(0), depth + 1); }
  if (auto* il = dyn_cast<InitListExpr>(E)) { if (il->getNumInits() == 1) return pathOf(X, il->getInit(0), depth + 1); }
  if (isa<CXXNullPtrLiteralExpr>(E) || isa<GNUNullExpr>(E)) return "#null";
  if (auto* b = dyn_cast<CXXBoolLiteralExpr>(E)) return b->getValue() ? "#true" : "#false";
  if (isa<LambdaExpr>(E)) return "<lambda@" + std::to_string(lineOf(X, E->getBeginLoc())) + ">";
  if (!E->isValueDependent()) {
    Expr::EvalResult R;
    if (!E->getType().isNull() && E->getType()->isIntegralOrEnumerationType() && E->EvaluateAsInt(R, X.C)) return "#" + llvm::toString(R.Val.getInt(), 10);
  }
  if (auto* i = dyn_cast<IntegerLiteral>(E)) return "#" + llvm::toString(i->getValue(), 10, false);
  return std::string("<") + E->getStmtClassName() + ">";
}

json::Value exprJ(Ctx& X, const Expr* E, int depth = 0) {
  if (!E) return nullptr;
  if (depth > 8) return json::Object{{"op", "deep"}};
  const Expr* S = E->IgnoreParenImpCasts();
  if (auto* ce = dyn_cast<ExprWithCleanups>(S)) return exprJ(X, ce->getSubExpr(), depth);
  if (auto* bo = dyn_cast<BinaryOperator>(S)) {
    return json::Object{{"op", "bin"}, {"o", bo->getOpcodeStr().str()}, {"l", exprJ(X, bo->getLHS(), depth + 1)}, {"r", exprJ(X, bo->getRHS(), depth + 1)}};
  }
  if (auto* uo = dyn_cast<UnaryOperator>(S)) {
    if (uo->getOpcode() == UO_LNot || uo->getOpcode() == UO_Not || uo->getOpcode() == UO_Minus || uo->getOpcode() == UO_AddrOf || uo->getOpcode() == UO_Deref)
      return json::Object{{"op", "un"}, {"o", UnaryOperator::getOpcodeStr(uo->getOpcode()).str()}, {"e", exprJ(X, uo->getSubExpr(), depth + 1)}};
  }
  if (auto* rb = dyn_cast<CXXRewrittenBinaryOperator>(S)) {
    auto df = rb->getDecomposedForm();
    return json::Object{{"op", "bin"}, {"o", BinaryOperator::getOpcodeStr(df.Opcode).str()}, {"l", exprJ(X, df.LHS, depth + 1)}, {"r", exprJ(X, df.RHS, depth + 1)}};
  }
  if (auto* oc = dyn_cast<CXXOperatorCallExpr>(S)) {
    auto op = oc->getOperator();
    if (oc->getNumArgs() == 2 && (op == OO_EqualEqual || op == OO_ExclaimEqual || op == OO_Less || op == OO_LessEqual || op == OO_Greater || op == OO_GreaterEqual || op == OO_AmpAmp || op == OO_PipePipe || op == OO_Amp || op == OO_Pipe))
      return json::Object{{"op", "bin"}, {"o", getOperatorSpelling(op)}, {"l", exprJ(X, oc->getArg(0), depth + 1)}, {"r", exprJ(X, oc->getArg(1), depth + 1)}};
    if (oc->getNumArgs() == 1 && op == OO_Exclaim) return json::Object{{"op", "un"}, {"o", "!"}, {"e", exprJ(X, oc->getArg(0), depth + 1)}};
  }
  if (auto* ec = dyn_cast<ExplicitCastExpr>(S)) {
    // (T&&)x / static_cast<T&&>(x): the library's spelling of std::forward / std::move
    QualType wt = ec->getTypeAsWritten();
    if (!wt.isNull() && wt->isRValueReferenceType()) {
      json::Value inner = exprJ(X, ec->getSubExpr(), depth + 1);
      if (auto* io = inner.getAsObject()) (*io)["fw"] = true;
      return inner;
    }
  }
  if (auto* c = dyn_cast<CallExpr>(S)) {
    std::string n = calleeName(X, c->getCallee());
    if (isTransparent(n) && c->getNumArgs() >= 1) {
      json::Value inner = exprJ(X, c->getArg(0), depth + 1);
      // remember that the operand was passed through std::move (needed by the use-after-move rule)
      if (n.size() >= 4 && n.compare(n.size() - 4, 4, "move") == 0)
        if (auto* io = inner.getAsObject()) (*io)["mv"] = true;
      if (n.size() >= 7 && n.compare(n.size() - 7, 7, "forward") == 0)
        if (auto* io = inner.getAsObject()) (*io)["fw"] = true;
      return inner;
    }
    auto it = X.eid.find(c);
    json::Object o{{"op", "call"}, {"p", pathOf(X, S)}};
    if (it != X.eid.end()) o["eid"] = it->second;
    return std::move(o);
  }
  if (auto* co = dyn_cast<ConditionalOperator>(S))
    return json::Object{{"op", "cond"}, {"c", exprJ(X, co->getCond(), depth + 1)}, {"t", exprJ(X, co->getTrueExpr(), depth + 1)}, {"f", exprJ(X, co->getFalseExpr(), depth + 1)}};
  json::Object po{{"op", "path"}, {"p", pathOf(X, S)}};
  // std::move(x).member / static_cast<T&&>(x).member: the move sits below a member access - keep the mark on the path
  {
    const Expr* cur = S; int guard = 0;
    while (cur && guard++ < 8) {
      cur = cur->IgnoreParenImpCasts();
      if (auto* me = dyn_cast<MemberExpr>(cur)) { cur = me->getBase(); continue; }
      if (auto* dm = dyn_cast<CXXDependentScopeMemberExpr>(cur)) { if (dm->isImplicitAccess()) break; cur = dm->getBase(); continue; }
      if (auto* ec = dyn_cast<ExplicitCastExpr>(cur)) {
        QualType wt = ec->getTypeAsWritten();
        if (!wt.isNull() && wt->isRValueReferenceType()) { po["fw"] = true; break; }
        cur = ec->getSubExpr(); continue;
      }
      if (auto* c = dyn_cast<CallExpr>(cur)) {
        std::string n = calleeName(X, c->getCallee());
        if (isTransparent(n) && c->getNumArgs() >= 1) {
          if (n.size() >= 4 && n.compare(n.size() - 4, 4, "move") == 0) { po["mv"] = true; break; }
          if (n.size() >= 7 && n.compare(n.size() - 7, 7, "forward") == 0) { po["fw"] = true; break; }
          cur = c->getArg(0); continue;
        }
      }
      break;
    }
  }
  return std::move(po);
}

std::string srcText(Ctx& X, SourceRange R, unsigned maxLen = 160) {
  if (R.isInvalid()) return "";
  auto CR = CharSourceRange::getTokenRange(X.SM.getExpansionLoc(R.getBegin()), X.SM.getExpansionLoc(R.getEnd()));
  std::string s = Lexer::getSourceText(CR, X.SM, X.C.getLangOpts()).str();
  std::string o; bool sp = false;
  for (char c : s) { if (isspace((unsigned char)c)) { if (!sp) o += ' '; sp = true; } else { o += c; sp = false; } }
  if (o.size() > maxLen) o = o.substr(0, maxLen) + "...";
  return o;
}

json::Array targsOf(Ctx& X, const Expr* callee) {
  json::Array a;
  callee = callee->IgnoreParenImpCasts();
  ArrayRef<TemplateArgumentLoc> args;
  if (auto* d = dyn_cast<DeclRefExpr>(callee)) args = d->template_arguments();
  else if (auto* u = dyn_cast<OverloadExpr>(callee)) args = u->template_arguments();
  else if (auto* m = dyn_cast<MemberExpr>(callee)) args = m->template_arguments();
  else if (auto* m = dyn_cast<CXXDependentScopeMemberExpr>(callee)) args = m->template_arguments();
  else if (auto* d = dyn_cast<DependentScopeDeclRefExpr>(callee)) args = d->template_arguments();
  for (auto& ta : args) {
    if (ta.getArgument().getKind() == TemplateArgument::Type) a.push_back(typeStr(canon(ta.getArgument().getAsType()), X.C));
    else { std::string s; llvm::raw_string_ostream os(s); ta.getArgument().print(PrintingPolicy(X.C.getLangOpts()), os, true); a.push_back(os.str()); }
  }
  return a;
}

json::Value eventOf(Ctx& X, const Stmt* st) {
  if (auto* le = dyn_cast<LambdaExpr>(st)) {
    X.lambdas.push_back(le);
    json::Array caps;
    for (auto& c : le->captures()) if (c.capturesVariable()) caps.push_back(c.getCapturedVar()->getNameAsString()); else if (c.capturesThis()) caps.push_back("this");
    return json::Object{{"k", "lambda"}, {"line", lineOf(X, le->getBeginLoc())}, {"fid", locStr(X, le->getBeginLoc()) + ":" + std::to_string(X.SM.getExpansionColumnNumber(le->getBeginLoc()))}, {"caps", std::move(caps)}};
  }
  if (auto* oce = dyn_cast<CXXOperatorCallExpr>(st)) {
    if (oce->getOperator() == OO_Equal && oce->getNumArgs() == 2) {
      json::Object o{{"k", "assign"}, {"o", "="}, {"line", lineOf(X, oce->getBeginLoc())}, {"lhs", pathOf(X, oce->getArg(0))}, {"rhs", exprJ(X, oce->getArg(1))}, {"opcall", true}};
      std::string m = macroOf(X, oce->getBeginLoc()); if (!m.empty()) o["macro"] = m;
      return std::move(o);
    }
  }
  if (auto* ce = dyn_cast<CallExpr>(st)) {
    int id = X.nextEid++;
    X.eid[ce] = id;
    json::Object o{{"k", "call"}, {"eid", id}, {"line", lineOf(X, ce->getBeginLoc())}, {"callee", calleeOf(X, ce->getCallee())}};
    // operator() on a known variable (CPO object) shows up as CXXOperatorCallExpr
    unsigned first = 0;
    if (auto* oc = dyn_cast<CXXOperatorCallExpr>(ce)) {
      o["operator"] = getOperatorSpelling(oc->getOperator());
      if (oc->getOperator() == OO_Call && oc->getNumArgs() > 0) { o["callee"] = calleeOf(X, oc->getArg(0)); first = 1; }
    }
    json::Array args;
    for (unsigned i = first; i < ce->getNumArgs(); ++i) {
      const Expr* a = ce->getArg(i);
      if (auto* pe = dyn_cast<PackExpansionExpr>(a)) a = pe->getPattern();
      args.push_back(exprJ(X, a));
    }
    o["args"] = std::move(args);
    json::Array ta = targsOf(X, ce->getCallee());
    if (!ta.empty()) o["targs"] = std::move(ta);
    std::string m = macroOf(X, ce->getBeginLoc());
    if (!m.empty()) o["macro"] = m;
    if (!ce->isTypeDependent() && !ce->isValueDependent()) {
      if (auto* fd = ce->getDirectCallee()) {
        if (auto* fpt = fd->getType()->getAs<FunctionProtoType>()) o["nothrow"] = fpt->isNothrow();
      }
    }
    return std::move(o);
  }
  if (auto* bo = dyn_cast<BinaryOperator>(st)) {
    if (bo->isAssignmentOp()) {
      json::Object o{{"k", "assign"}, {"o", bo->getOpcodeStr().str()}, {"line", lineOf(X, bo->getBeginLoc())}, {"lhs", pathOf(X, bo->getLHS())}, {"rhs", exprJ(X, bo->getRHS())}};
      {
        const Expr* L = bo->getLHS()->IgnoreParenImpCasts();
        bool deref = false;
        if (auto* lu = dyn_cast<UnaryOperator>(L)) deref = lu->getOpcode() == UO_Deref;
        else if (auto* lo = dyn_cast<CXXOperatorCallExpr>(L)) deref = lo->getOperator() == OO_Star && lo->getNumArgs() == 1;
        if (deref) o["deref"] = true;
      }
      std::string m = macroOf(X, bo->getBeginLoc()); if (!m.empty()) o["macro"] = m;
      return std::move(o);
    }
    return nullptr;
  }
  if (auto* uo = dyn_cast<UnaryOperator>(st)) {
    if (uo->isIncrementDecrementOp()) {
      json::Object o{{"k", "incdec"}, {"o", UnaryOperator::getOpcodeStr(uo->getOpcode()).str()}, {"line", lineOf(X, uo->getBeginLoc())}, {"lhs", pathOf(X, uo->getSubExpr())}};
      std::string m = macroOf(X, uo->getBeginLoc()); if (!m.empty()) o["macro"] = m;
      return std::move(o);
    }
    return nullptr;
  }
  if (auto* ds = dyn_cast<DeclStmt>(st)) {
    json::Array vars;
    for (auto* d : ds->decls()) if (auto* vd = dyn_cast<VarDecl>(d)) {
      json::Object v{{"var", vd->getNameAsString()}, {"type", typeStr(vd->getType(), X.C)}};
      if (vd->hasInit()) v["init"] = exprJ(X, vd->getInit());
      if (auto* tsi = vd->getTypeSourceInfo()) v["wtype"] = srcText(X, tsi->getTypeLoc().getSourceRange(), 80);
      vars.push_back(std::move(v));
    }
    if (vars.empty()) {
      // local type aliases (`using value_type = remove_cvref_t<T>;`): needed to resolve trait arguments
      for (auto* d : ds->decls()) if (auto* td = dyn_cast<TypedefNameDecl>(d))
        return json::Object{{"k", "alias"}, {"line", lineOf(X, ds->getBeginLoc())}, {"name", td->getNameAsString()},
                            {"type", td->getTypeSourceInfo() ? srcText(X, td->getTypeSourceInfo()->getTypeLoc().getSourceRange(), 200) : typeStr(td->getUnderlyingType(), X.C)}};
      return nullptr;
    }
    return json::Object{{"k", "decl"}, {"line", lineOf(X, ds->getBeginLoc())}, {"vars", std::move(vars)}};
  }
  if (auto* rs = dyn_cast<ReturnStmt>(st)) {
    json::Object o{{"k", "ret"}, {"line", lineOf(X, rs->getBeginLoc())}};
    if (rs->getRetValue()) o["v"] = exprJ(X, rs->getRetValue());
    return std::move(o);
  }
  if (auto* ne = dyn_cast<CXXNewExpr>(st)) {
    json::Object o{{"k", "new"}, {"line", lineOf(X, ne->getBeginLoc())}, {"type", typeStr(ne->getAllocatedType(), X.C)}};
    if (ne->getNumPlacementArgs() > 0) o["placement"] = pathOf(X, ne->getPlacementArg(0));
    return std::move(o);
  }
  if (auto* de = dyn_cast<CXXDeleteExpr>(st)) return json::Object{{"k", "delete"}, {"line", lineOf(X, de->getBeginLoc())}, {"p", pathOf(X, de->getArgument())}};
  if (auto* te = dyn_cast<CXXThrowExpr>(st)) return json::Object{{"k", "throw"}, {"line", lineOf(X, te->getBeginLoc())}, {"rethrow", te->getSubExpr() == nullptr}};
  if (auto* pd = dyn_cast<CXXPseudoDestructorExpr>(st)) return json::Object{{"k", "pseudodtor"}, {"line", lineOf(X, pd->getBeginLoc())}, {"p", pathOf(X, pd->getBase())}};
  if (auto* cc = dyn_cast<CXXConstructExpr>(st)) {
    if (cc->getNumArgs() == 0) return nullptr;
    json::Array args; for (auto* a : cc->arguments()) args.push_back(exprJ(X, a));
    return json::Object{{"k", "construct"}, {"line", lineOf(X, cc->getBeginLoc())}, {"type", typeStr(canon(cc->getType()), X.C)}, {"args", std::move(args)}};
  }
  if (auto* cc = dyn_cast<CXXUnresolvedConstructExpr>(st)) {
    json::Array args; for (auto* a : cc->arguments()) args.push_back(exprJ(X, a));
    json::Object o{{"k", "construct"}, {"line", lineOf(X, cc->getBeginLoc())}, {"type", typeStr(canon(cc->getTypeAsWritten()), X.C)}, {"args", std::move(args)}};
    // T{pack...} / T(pack...) with nothing but a pack expansion: value-initialisation when the pack is empty
    {
      std::vector<const Expr*> as(cc->arguments().begin(), cc->arguments().end());
      if (as.size() == 1) if (auto* il = dyn_cast<InitListExpr>(as[0])) as.assign(il->inits().begin(), il->inits().end());
      o["nargs"] = (int64_t)as.size();
      if (as.size() == 1 && isa<PackExpansionExpr>(as[0])) o["packonly"] = true;
    }
    return std::move(o);
  }
  if (auto* il = dyn_cast<InitListExpr>(st)) {
    if (il->getNumInits() == 0) return nullptr;
    json::Array args; for (auto* a : il->inits()) args.push_back(exprJ(X, a));
    return json::Object{{"k", "initlist"}, {"line", lineOf(X, il->getBeginLoc())}, {"type", typeStr(canon(il->getType()), X.C)}, {"args", std::move(args)}};
  }
  return nullptr;
}

void collectTryRegions(Ctx& X, const Stmt* S, json::Array& out) {
  if (!S) return;
  if (auto* ts = dyn_cast<CXXTryStmt>(S)) {
    json::Object o;
    o["try_begin"] = lineOf(X, ts->getTryBlock()->getBeginLoc());
    o["try_end"] = lineOf(X, ts->getTryBlock()->getEndLoc());
    json::Array hs;
    for (unsigned i = 0; i < ts->getNumHandlers(); ++i) {
      auto* h = ts->getHandler(i);
      hs.push_back(json::Object{{"begin", lineOf(X, h->getHandlerBlock()->getBeginLoc())}, {"end", lineOf(X, h->getHandlerBlock()->getEndLoc())}, {"catch_all", h->getExceptionDecl() == nullptr}});
    }
    o["handlers"] = std::move(hs);
    out.push_back(std::move(o));
  }
  if (isa<LambdaExpr>(S)) return;  // lambda bodies handled separately
  for (auto* c : S->children()) collectTryRegions(X, c, out);
}

void collectUneval(Ctx& X, const Stmt* S, bool in) {
  if (!S) return;
  if (in) X.uneval.insert(S);
  bool here = in || isa<CXXNoexceptExpr>(S) || isa<UnaryExprOrTypeTraitExpr>(S) || isa<RequiresExpr>(S);
  if (isa<LambdaExpr>(S) && !in) return;
  for (auto* c : S->children()) collectUneval(X, c, here);
}

json::Object extractBody(Ctx& X, const Decl* D, const Stmt* Body) {
  json::Object fo;
  X.eid.clear(); X.nextEid = 0; X.uneval.clear();
  collectUneval(X, Body, false);
  CFG::BuildOptions BO;
  BO.setAllAlwaysAdd();
  BO.AddImplicitDtors = true;
  BO.AddTemporaryDtors = false;
  BO.AddEHEdges = false;
  BO.AddScopes = true;
  BO.AddInitializers = true;
  if (auto* dd = dyn_cast<CXXDestructorDecl>(D)) if (dd->isDependentContext()) BO.AddImplicitDtors = false;
  auto cfg = CFG::buildCFG(D, const_cast<Stmt*>(Body), &X.C, BO);
  if (!cfg) { fo["cfg"] = false; return fo; }
  fo["entry"] = (int)cfg->getEntry().getBlockID();
  fo["exit"] = (int)cfg->getExit().getBlockID();
  json::Array blocks;
  // Emit in reverse id order (roughly source order); ids are stable.
  std::vector<const CFGBlock*> bs(cfg->begin(), cfg->end());
  for (auto it = bs.rbegin(); it != bs.rend(); ++it) {
    const CFGBlock* B = *it;
    json::Object bo; bo["id"] = (int)B->getBlockID();
    json::Array succs;
    for (auto S : B->succs()) { if (auto* r = S.getReachableBlock()) succs.push_back((int)r->getBlockID()); else if (auto* u = S.getPossiblyUnreachableBlock()) succs.push_back(json::Object{{"unreach", (int)u->getBlockID()}}); else succs.push_back(nullptr); }
    bo["succs"] = std::move(succs);
    json::Array elems;
    int firstLine = 0, lastLine = 0;
    for (auto& El : *B) {
      if (auto S = El.getAs<CFGStmt>()) {
        const Stmt* st = S->getStmt();
        if (X.uneval.count(st)) continue;
        int ln = lineOf(X, st->getBeginLoc());
        if (ln) { if (!firstLine) firstLine = ln; lastLine = ln; }
        json::Value ev = eventOf(X, st);
        if (auto* eo = ev.getAsObject()) {
          // source range (expansion locations) - lets rules tell "nested in the same full expression" from "a later statement"
          SourceLocation b = X.SM.getExpansionLoc(st->getBeginLoc()), e2 = X.SM.getExpansionLoc(st->getEndLoc());
          if (b.isValid() && e2.isValid())
            (*eo)["rng"] = json::Array{(int)X.SM.getExpansionLineNumber(b), (int)X.SM.getExpansionColumnNumber(b), (int)X.SM.getExpansionLineNumber(e2), (int)X.SM.getExpansionColumnNumber(e2)};
          elems.push_back(std::move(ev));
        }
      } else if (auto I = El.getAs<CFGInitializer>()) {
        auto* ci = I->getInitializer();
        json::Object o{{"k", "init"}};
        if (ci->isAnyMemberInitializer()) o["field"] = ci->getAnyMember()->getNameAsString();
        else if (ci->isBaseInitializer()) o["base"] = typeStr(QualType(ci->getBaseClass(), 0), X.C);
        o["v"] = exprJ(X, ci->getInit());
        o["line"] = lineOf(X, ci->getSourceLocation());
        elems.push_back(std::move(o));
      } else if (auto SB = El.getAs<CFGScopeBegin>()) {
        elems.push_back(json::Object{{"k", "scope_begin"}, {"var", SB->getVarDecl() ? SB->getVarDecl()->getNameAsString() : ""}});
      } else if (auto SE = El.getAs<CFGScopeEnd>()) {
        elems.push_back(json::Object{{"k", "scope_end"}, {"var", SE->getVarDecl() ? SE->getVarDecl()->getNameAsString() : ""}});
      } else if (auto AD = El.getAs<CFGAutomaticObjDtor>()) {
        elems.push_back(json::Object{{"k", "autodtor"}, {"var", AD->getVarDecl()->getNameAsString()}, {"type", typeStr(canon(AD->getVarDecl()->getType()), X.C)}});
      }
    }
    bo["elems"] = std::move(elems);
    if (firstLine) { bo["l0"] = firstLine; bo["l1"] = lastLine; }
    if (const Stmt* T = B->getTerminatorStmt()) {
      json::Object to{{"kind", T->getStmtClassName()}, {"line", lineOf(X, T->getBeginLoc())}};
      const Expr* cond = nullptr;
      if (auto* is = dyn_cast<IfStmt>(T)) { cond = is->getCond(); to["constexpr"] = is->isConstexpr(); if (is->isConstexpr()) to["text"] = srcText(X, is->getCond()->getSourceRange(), 300); }
      else if (auto* ws = dyn_cast<WhileStmt>(T)) cond = ws->getCond();
      else if (auto* fs = dyn_cast<ForStmt>(T)) cond = fs->getCond();
      else if (auto* ds = dyn_cast<DoStmt>(T)) cond = ds->getCond();
      else if (auto* co = dyn_cast<ConditionalOperator>(T)) cond = co->getCond();
      else if (auto* bo2 = dyn_cast<BinaryOperator>(T)) { cond = bo2->getLHS(); to["o"] = bo2->getOpcodeStr().str(); }
      else if (auto* sw = dyn_cast<SwitchStmt>(T)) {
        cond = sw->getCond();
        // map successor order -> case labels
        json::Array labels;
        for (auto S : B->succs()) {
          const CFGBlock* sb = S.getReachableBlock() ? S.getReachableBlock() : S.getPossiblyUnreachableBlock();
          std::string lab = "?";
          if (sb) if (const Stmt* L = sb->getLabel()) {
            if (auto* cs = dyn_cast<CaseStmt>(L)) lab = pathOf(X, cs->getLHS());
            else if (isa<DefaultStmt>(L)) lab = "default";
          }
          labels.push_back(lab);
        }
        to["cases"] = std::move(labels);
      }
      if (cond) to["cond"] = exprJ(X, cond);
      std::string m = macroOf(X, T->getBeginLoc()); if (!m.empty()) to["macro"] = m;
      bo["term"] = std::move(to);
    }
    blocks.push_back(std::move(bo));
  }
  fo["blocks"] = std::move(blocks);
  json::Array tr; collectTryRegions(X, Body, tr);
  if (!tr.empty()) fo["try"] = std::move(tr);
  return fo;
}

// local type aliases of a function body (`using value_type = remove_cvref_t<T>;`): clang's CFG has no element for them
struct AliasCollector : RecursiveASTVisitor<AliasCollector> {
  Ctx& X; json::Object out;
  explicit AliasCollector(Ctx& x) : X(x) {}
  bool TraverseLambdaExpr(LambdaExpr*) { return true; }
  bool VisitTypedefNameDecl(TypedefNameDecl* td) {
    out[td->getNameAsString()] = td->getTypeSourceInfo() ? srcText(X, td->getTypeSourceInfo()->getTypeLoc().getSourceRange(), 200) : typeStr(td->getUnderlyingType(), X.C);
    return true;
  }
};

struct V : RecursiveASTVisitor<V> {
  Ctx X; json::Array funcs, records;
  std::set<const void*> seen;
  explicit V(ASTContext& c) : X(c) {}
  bool shouldVisitTemplateInstantiations() const { return false; }
  bool shouldVisitImplicitCode() const { return false; }

  bool inScope(SourceLocation L) {
    if (L.isInvalid()) return false;
    auto f = X.SM.getFilename(X.SM.getExpansionLoc(L));
    return f.startswith(Prefix);
  }

  std::string enclosing(const DeclContext* DC) {
    std::string s;
    if (auto* nd = dyn_cast<NamedDecl>(DC)) s = nd->getQualifiedNameAsString();
    return s;
  }

  void emitFunction(const FunctionDecl* F, const Stmt* Body, const LambdaExpr* L, const std::string& parentFn) {
    json::Object fo = extractBody(X, F, Body);
    fo["qname"] = F->getQualifiedNameAsString();
    fo["name"] = F->getNameAsString();
    fo["loc"] = locStr(X, F->getLocation());
    fo["line"] = lineOf(X, F->getLocation());
    fo["endline"] = lineOf(X, Body->getEndLoc());
    fo["dep"] = F->isDependentContext();
    { AliasCollector ac(X); ac.TraverseStmt(const_cast<Stmt*>(Body)); if (!ac.out.empty()) fo["aliases"] = std::move(ac.out); }
    if (L) { fo["lambda"] = true; fo["fid"] = locStr(X, L->getBeginLoc()) + ":" + std::to_string(X.SM.getExpansionColumnNumber(L->getBeginLoc())); fo["parent_fn"] = parentFn; }
    if (auto* m = dyn_cast<CXXMethodDecl>(F)) {
      fo["record"] = m->getParent()->getQualifiedNameAsString();
      fo["static"] = m->isStatic();
      if (isa<CXXConstructorDecl>(m)) fo["ctor"] = true;
      if (isa<CXXDestructorDecl>(m)) fo["dtor"] = true;
    } else if (F->getFriendObjectKind() != Decl::FOK_None) {
      if (auto* rd = dyn_cast<CXXRecordDecl>(F->getLexicalDeclContext())) { fo["record"] = rd->getQualifiedNameAsString(); fo["friend"] = true; }
    }
    json::Array ps;
    for (auto* p : F->parameters()) ps.push_back(json::Object{{"name", p->getNameAsString()}, {"type", typeStr(p->getType(), X.C)}});
    fo["params"] = std::move(ps);
    if (auto* ft = F->getDescribedFunctionTemplate()) {
      json::Array tps;
      for (auto* tp : *ft->getTemplateParameters()) tps.push_back(tp->getNameAsString());
      fo["tparams"] = std::move(tps);
    }
    if (auto* fpt = F->getType()->getAs<FunctionProtoType>()) {
      auto est = fpt->getExceptionSpecType();
      fo["noexcept"] = (est == EST_BasicNoexcept || est == EST_NoexceptTrue || est == EST_NoThrow) ? "yes" : (est == EST_DependentNoexcept ? "dependent" : (est == EST_None ? "none" : "other"));
      if (const Expr* ne = fpt->getNoexceptExpr()) fo["noexcept_text"] = srcText(X, ne->getSourceRange(), 900);
    }
    funcs.push_back(std::move(fo));
  }

  void drainLambdas(const std::string& parent) {
    // extract bodies of lambdas discovered while extracting `parent` (recursively)
    while (!X.lambdas.empty()) {
      const LambdaExpr* L = X.lambdas.back(); X.lambdas.pop_back();
      if (!seen.insert(L).second) continue;
      if (auto* op = L->getCallOperator()) if (op->hasBody()) emitFunction(op, op->getBody(), L, parent);
    }
  }

  bool VisitFunctionDecl(FunctionDecl* F) {
    if (!F->doesThisDeclarationHaveABody()) return true;
    if (!inScope(F->getLocation())) return true;
    if (auto* m = dyn_cast<CXXMethodDecl>(F)) if (m->getParent()->isLambda()) return true;  // via drainLambdas
    if (!seen.insert(F).second) return true;
    emitFunction(F, F->getBody(), nullptr, "");
    drainLambdas(F->getQualifiedNameAsString() + "@" + std::to_string(lineOf(X, F->getLocation())));
    return true;
  }

  bool VisitCXXRecordDecl(CXXRecordDecl* R) {
    if (!R->isThisDeclarationADefinition()) return true;
    if (!inScope(R->getLocation())) return true;
    if (R->isLambda()) return true;
    json::Object ro{{"qname", R->getQualifiedNameAsString()}, {"loc", locStr(X, R->getLocation())}, {"line", lineOf(X, R->getLocation())}, {"endline", lineOf(X, R->getBraceRange().getEnd())}, {"dep", R->isDependentContext()}, {"kind", R->isUnion() ? "union" : (R->isClass() ? "class" : "struct")}};
    json::Array bases;
    for (auto& b : R->bases()) bases.push_back(typeStr(b.getType(), X.C));
    ro["bases"] = std::move(bases);
    json::Array fields;
    std::function<void(const RecordDecl*, const std::string&)> addFields = [&](const RecordDecl* RD, const std::string& inUnion) {
      for (auto* d : RD->decls()) {
        if (auto* fd = dyn_cast<FieldDecl>(d)) {
          if (fd->isAnonymousStructOrUnion()) { if (auto* rt = fd->getType()->getAsRecordDecl()) addFields(rt, rt->isUnion() ? "anon_union@" + std::to_string(lineOf(X, rt->getLocation())) : inUnion); continue; }
          json::Object f{{"name", fd->getNameAsString()}, {"type", typeStr(fd->getType(), X.C)}, {"ctype", typeStr(canon(fd->getType()), X.C)}, {"line", lineOf(X, fd->getLocation())}, {"has_init", fd->hasInClassInitializer()}};
          if (fd->hasInClassInitializer() && fd->getInClassInitializer()) f["init"] = pathOf(X, fd->getInClassInitializer());
          if (!inUnion.empty()) f["union"] = inUnion;
          if (auto* tsi = fd->getTypeSourceInfo()) f["wtype"] = srcText(X, tsi->getTypeLoc().getSourceRange(), 200);
          fields.push_back(std::move(f));
        } else if (auto* vd = dyn_cast<VarDecl>(d)) {
          if (vd->isStaticDataMember()) {
            json::Object f{{"name", vd->getNameAsString()}, {"static", true}, {"type", typeStr(vd->getType(), X.C)}, {"line", lineOf(X, vd->getLocation())}};
            if (vd->hasInit()) f["init_text"] = srcText(X, vd->getInit()->getSourceRange(), 300);
            fields.push_back(std::move(f));
          }
        }
      }
    };
    addFields(R, R->isUnion() ? "self" : "");
    ro["fields"] = std::move(fields);
    json::Array methods;
    for (auto* d : R->decls()) {
      const FunctionDecl* fd = nullptr;
      if (auto* m = dyn_cast<CXXMethodDecl>(d)) fd = m;
      else if (auto* ft = dyn_cast<FunctionTemplateDecl>(d)) fd = ft->getTemplatedDecl();
      else if (auto* fr = dyn_cast<FriendDecl>(d)) { if (auto* nd = fr->getFriendDecl()) { if (auto* f2 = dyn_cast<FunctionDecl>(nd)) fd = f2; else if (auto* ft2 = dyn_cast<FunctionTemplateDecl>(nd)) fd = ft2->getTemplatedDecl(); } }
      if (!fd) continue;
      json::Object mo{{"name", fd->getNameAsString()}, {"line", lineOf(X, fd->getLocation())}, {"has_body", fd->doesThisDeclarationHaveABody()}, {"friend", fd->getFriendObjectKind() != Decl::FOK_None}};
      json::Array ps; for (auto* p : fd->parameters()) ps.push_back(typeStr(p->getType(), X.C));
      mo["ptypes"] = std::move(ps);
      if (fd->isDeleted()) mo["deleted"] = true;
      methods.push_back(std::move(mo));
    }
    ro["methods"] = std::move(methods);
    records.push_back(std::move(ro));
    return true;
  }
};

struct Cons : ASTConsumer {
  void HandleTranslationUnit(ASTContext& C) override {
    V v(C);
    v.TraverseDecl(C.getTranslationUnitDecl());
    json::Object root{{"functions", std::move(v.funcs)}, {"records", std::move(v.records)}};
    std::error_code ec;
    if (Out == "-") llvm::outs() << json::Value(std::move(root)) << "\n";
    else { llvm::raw_fd_ostream os(Out, ec); os << json::Value(std::move(root)) << "\n"; }
  }
};
struct Act : ASTFrontendAction {
  std::unique_ptr<ASTConsumer> CreateASTConsumer(CompilerInstance&, StringRef) override { return std::make_unique<Cons>(); }
};
}  // namespace

int main(int argc, const char** argv) {
  auto P = tooling::CommonOptionsParser::create(argc, argv, Cat);
  if (!P) { llvm::errs() << llvm::toString(P.takeError()); return 2; }
  tooling::ClangTool T(P->getCompilations(), P->getSourcePathList());
  return T.run(tooling::newFrontendActionFactory<Act>().get());
}
