// Compile-only witness (never linked or run): receiver queries reach the children of every adaptor.
// A probe leaf sender static_asserts, inside its connect, what it can see *through the receiver it is given*:
// the result types of a user-defined query CPO, get_scheduler, get_allocator and get_stop_token.  The root
// receiver answers each with a distinctive type, so "forwarded" and "replaced" are distinguishable; the
// expectation per adaptor says which single query it is documented to replace.
#include <unifex/just.hpp>
#include <unifex/then.hpp>
#include <unifex/upon_done.hpp>
#include <unifex/upon_error.hpp>
#include <unifex/let_value.hpp>
#include <unifex/let_value_with.hpp>
#include <unifex/let_value_with_stop_source.hpp>
#include <unifex/sequence.hpp>
#include <unifex/when_all.hpp>
#include <unifex/finally.hpp>
#include <unifex/stop_when.hpp>
#include <unifex/let_done.hpp>
#include <unifex/let_error.hpp>
#include <unifex/materialize.hpp>
#include <unifex/dematerialize.hpp>
#include <unifex/into_variant.hpp>
#include <unifex/retry_when.hpp>
#include <unifex/repeat_effect_until.hpp>
#include <unifex/with_query_value.hpp>
#include <unifex/unstoppable.hpp>
#include <unifex/on.hpp>
#include <unifex/inline_scheduler.hpp>
#include <unifex/scheduler_concepts.hpp>
#include <unifex/get_allocator.hpp>
#include <unifex/get_stop_token.hpp>
#include <unifex/sender_concepts.hpp>
#include <unifex/receiver_concepts.hpp>
#include <unifex/async_trace.hpp>
#include <memory>
namespace vp {
using namespace unifex;
template <int N> struct tag_value {};
inline constexpr struct probe_query_fn {
  template <typename R>
  auto operator()(const R& r) const noexcept -> tag_invoke_result_t<probe_query_fn, const R&> { return tag_invoke(*this, r); }
} probe_query{};
// a query whose answer is not noexcept: forwarding must not depend on the query being nothrow
inline constexpr struct probe_query_throwing_fn {
  template <typename R>
  auto operator()(const R& r) const noexcept(is_nothrow_tag_invocable_v<probe_query_throwing_fn, const R&>) -> tag_invoke_result_t<probe_query_throwing_fn, const R&> { return tag_invoke(*this, r); }
} probe_query_throwing{};
}
namespace unifex { template <> inline constexpr bool is_receiver_query_cpo_v<vp::probe_query_fn> = true;
                   template <> inline constexpr bool is_receiver_query_cpo_v<vp::probe_query_throwing_fn> = true; }
namespace vp {
struct root_receiver;
struct probe_visitor {
  template <typename C> void operator()(const C& c) const noexcept {
    if constexpr (!std::is_same_v<C, root_receiver>) {
      static_assert(is_tag_invocable_v<tag_t<visit_continuations>, const C&, probe_visitor>, "W-VISIT a receiver in the chain between a child and the consumer does not customise visit_continuations for an rvalue visitor: async_trace stops short of the root receiver");
      visit_continuations(c, probe_visitor{});
    }
  }
};
struct probe_sched : inline_scheduler {};
struct other_sched : inline_scheduler {};
template <typename T> struct probe_alloc : std::allocator<T> {
  template <typename U> struct rebind { using other = probe_alloc<U>; };
  probe_alloc() = default;
  template <typename U> probe_alloc(const probe_alloc<U>&) {}
};
struct probe_token : inplace_stop_token {};
struct root_receiver {
  template <typename... V> void set_value(V&&...) && noexcept {}
  template <typename E> void set_error(E&&) && noexcept {}
  void set_done() && noexcept {}
  friend tag_value<7> tag_invoke(tag_t<probe_query>, const root_receiver&) noexcept { return {}; }
  friend tag_value<9> tag_invoke(tag_t<probe_query_throwing>, const root_receiver&) noexcept(false) { return {}; }
  friend probe_sched tag_invoke(tag_t<get_scheduler>, const root_receiver&) noexcept { return {}; }
  friend probe_alloc<char> tag_invoke(tag_t<get_allocator>, const root_receiver&) noexcept { return {}; }
  friend probe_token tag_invoke(tag_t<get_stop_token>, const root_receiver&) noexcept { return {}; }
};
// expectations
struct fwd_all { using token = probe_token; using sched = probe_sched; };
struct own_token { using token = inplace_stop_token; using sched = probe_sched; };
struct no_token { using token = unstoppable_token; using sched = probe_sched; };
struct new_sched { using token = probe_token; using sched = other_sched; };
template <typename Expect, typename Where>
struct leaf {
  template <template <typename...> class V, template <typename...> class T> using value_types = V<T<>>;
  template <template <typename...> class V> using error_types = V<std::exception_ptr>;
  static constexpr bool sends_done = true;
  // The assertions sit in start(), and start() completes on all three channels: a function template body is
  // instantiated only when it is used, so this makes the compiler instantiate every handler of every adaptor on
  // the way and, inside those handlers, the connect+start of the successor / completion / trigger senders
  // (asserting inside connect() would see only the children that are connected eagerly, and would also fire
  // for the unevaluated connect() probes that constraints and noexcept clauses make with other receivers).
  template <typename R> struct op {
    R r; int which;
    void start() noexcept {
      static_assert(std::is_invocable_v<tag_t<probe_query>, const R&>, "W-QUERY a user-defined receiver query issued by a child does not reach the consumer's receiver");
      static_assert(std::is_invocable_v<tag_t<probe_query_throwing>, const R&>, "W-QUERY a user-defined receiver query that is not noexcept does not reach the consumer's receiver");
      static_assert(std::is_same_v<remove_cvref_t<decltype(get_scheduler(std::declval<const R&>()))>, typename Expect::sched>, "W-QUERY get_scheduler seen by a child is not the expected scheduler");
      static_assert(std::is_same_v<remove_cvref_t<decltype(get_allocator(std::declval<const R&>()))>, probe_alloc<char>>, "W-QUERY get_allocator is not forwarded to a child");
      static_assert(std::is_same_v<remove_cvref_t<decltype(get_stop_token(std::declval<const R&>()))>, typename Expect::token>, "W-QUERY the stop token type seen by a child is not the documented one");
#if UNIFEX_ENABLE_CONTINUATION_VISITATIONS
      // continuation visitation: the receiver handed to a child can be visited with an rvalue visitor (what async_trace
      // passes); a hook taking `Func&` silently falls back to the no-op default and the trace stops short of the root
      // walk the whole chain of continuations up to the consumer's receiver (compiled, never run)
      visit_continuations(std::as_const(r), probe_visitor{});
#endif
      if (which == 0) unifex::set_value(std::move(r));
      else if (which == 1) unifex::set_error(std::move(r), std::exception_ptr{});
      else unifex::set_done(std::move(r));
    }
  };
  template <typename R>
  friend op<remove_cvref_t<R>> tag_invoke(tag_t<connect>, leaf, R&& r) { return {(R&&)r, 0}; }
};
template <typename S> void check(S&& s) { auto op = connect((S&&)s, root_receiver{}); unifex::start(op); /* compiled, never run */ }
// one tag type per adaptor position, so that a failing assertion names the adaptor in the instantiation trace
#define POS(name) struct in_##name {}
POS(then); POS(upon_done); POS(upon_error); POS(let_value_pred); POS(let_value_succ); POS(let_value_with); POS(let_value_with_stop_source);
POS(sequence_1); POS(sequence_2); POS(when_all_1); POS(when_all_2); POS(finally_source); POS(finally_completion); POS(stop_when_source); POS(stop_when_trigger);
POS(let_done_source); POS(let_done_final); POS(let_error_source); POS(let_error_final); POS(materialize); POS(into_variant); POS(repeat_effect_until); POS(retry_when_source); POS(retry_when_trigger);
POS(unstoppable); POS(with_query_value); POS(on); POS(then_then); POS(sequence_in_when_all);
void all() {
  check(then(leaf<fwd_all, in_then>{}, [] {}));
  check(upon_done(leaf<fwd_all, in_upon_done>{}, [] {}));
  check(upon_error(leaf<fwd_all, in_upon_error>{}, [](auto&&) {}));
  check(let_value(leaf<fwd_all, in_let_value_pred>{}, [] { return just(); }));
  check(let_value(just(), [] { return leaf<fwd_all, in_let_value_succ>{}; }));
  check(let_value_with([] { return 1; }, [](int&) { return leaf<fwd_all, in_let_value_with>{}; }));
  check(let_value_with_stop_source([](auto&) { return leaf<own_token, in_let_value_with_stop_source>{}; }));
  check(sequence(leaf<fwd_all, in_sequence_1>{}, leaf<fwd_all, in_sequence_2>{}));
  check(when_all(leaf<own_token, in_when_all_1>{}, leaf<own_token, in_when_all_2>{}));
  check(finally(leaf<fwd_all, in_finally_source>{}, leaf<fwd_all, in_finally_completion>{}));
  check(stop_when(leaf<own_token, in_stop_when_source>{}, leaf<own_token, in_stop_when_trigger>{}));
  check(let_done(leaf<fwd_all, in_let_done_source>{}, [] { return leaf<fwd_all, in_let_done_final>{}; }));
  check(let_error(leaf<fwd_all, in_let_error_source>{}, [](auto&&) { return leaf<fwd_all, in_let_error_final>{}; }));
  check(dematerialize(materialize(leaf<fwd_all, in_materialize>{})));
  check(into_variant(leaf<fwd_all, in_into_variant>{}));
  check(repeat_effect_until(leaf<fwd_all, in_repeat_effect_until>{}, [] { return true; }));
  check(retry_when(leaf<fwd_all, in_retry_when_source>{}, [](auto&&) { return leaf<fwd_all, in_retry_when_trigger>{}; }));
  check(unstoppable(leaf<no_token, in_unstoppable>{}));
  check(with_query_value(leaf<new_sched, in_with_query_value>{}, get_scheduler, other_sched{}));
  check(on(other_sched{}, leaf<new_sched, in_on>{}));
  // depth 2
  check(then(then(leaf<fwd_all, in_then_then>{}, [] {}), [] {}));
  check(when_all(sequence(just(), leaf<own_token, in_sequence_in_when_all>{}), just()));
}
}  // namespace vp
