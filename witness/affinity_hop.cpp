// Compile-only witness (C++20; never linked or run): the hop back to the consumer's scheduler that
// with_scheduler_affinity() appends to a non-affine sender is *unstoppable*.  The result of the sender is
// already produced when the hop starts; a hop that sees the consumer's stop token lets a stop-aware scheduler
// complete it with done, discarding the value/error the awaited sender produced (a task<> then unwinds as
// cancelled although co_await had a result).  The probe scheduler's schedule() sender static_asserts, inside
// connect, the stop-token type it can see through the receiver it is given; the source leaf asserts that it
// still sees the consumer's own token.
#include <unifex/with_scheduler_affinity.hpp>
#include <unifex/get_stop_token.hpp>
#include <unifex/inplace_stop_token.hpp>
#include <unifex/unstoppable_token.hpp>
#include <unifex/scheduler_concepts.hpp>
#include <unifex/sender_concepts.hpp>
#include <unifex/receiver_concepts.hpp>
#include <unifex/blocking.hpp>
#include <exception>
namespace vp {
using namespace unifex;
struct probe_token : inplace_stop_token {};
struct root_receiver {
  template <typename... V> void set_value(V&&...) && noexcept {}
  template <typename E> void set_error(E&&) && noexcept {}
  void set_done() && noexcept {}
  friend probe_token tag_invoke(tag_t<get_stop_token>, const root_receiver&) noexcept { return {}; }
};
struct in_hop {};
struct in_source {};
template <typename ExpectToken, typename Where, bool Affine>
struct leaf {
  template <template <typename...> class V, template <typename...> class T> using value_types = V<T<>>;
  template <template <typename...> class V> using error_types = V<std::exception_ptr>;
  static constexpr bool sends_done = true;
  static constexpr blocking_kind blocking = blocking_kind::maybe;
  static constexpr bool is_always_scheduler_affine = Affine;
  // the assertion sits in start(): its body is instantiated only for operations that are really started, not for
  // the unevaluated connect() probes that constraints and noexcept clauses perform with other receiver types
  template <typename R> struct op {
    R r;
    void start() noexcept {
      static_assert(std::is_same_v<remove_cvref_t<decltype(get_stop_token(std::declval<const R&>()))>, ExpectToken>,
                    "W-HOP the stop token seen at this position of with_scheduler_affinity is not the documented one (source: the consumer's token; hop back to the scheduler: unstoppable_token)");
      unifex::set_value(std::move(r));
    }
  };
  template <typename R>
  friend op<remove_cvref_t<R>> tag_invoke(tag_t<connect>, leaf, R&& r) { return {(R&&)r}; }
};
struct probe_sched {
  leaf<unstoppable_token, in_hop, true> schedule() const noexcept { return {}; }
  friend bool operator==(probe_sched, probe_sched) noexcept { return true; }
  friend bool operator!=(probe_sched, probe_sched) noexcept { return false; }
};
void all() {
  auto s = with_scheduler_affinity(leaf<probe_token, in_source, false>{}, probe_sched{});
  static_assert(sender_traits<decltype(s)>::is_always_scheduler_affine, "W-HOP with_scheduler_affinity() of a non-affine sender must declare is_always_scheduler_affine");
  auto op = connect(std::move(s), root_receiver{});
  unifex::start(op);      // compiled, never run: instantiates the start() bodies of every operation that is really started
  // an already affine sender is returned unchanged
  static_assert(std::is_same_v<decltype(with_scheduler_affinity(leaf<probe_token, in_source, true>{}, probe_sched{})), leaf<probe_token, in_source, true>&&>,
                "W-HOP with_scheduler_affinity() of a statically affine sender is the identity");
}
}  // namespace vp
