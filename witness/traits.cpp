// Compile-only witness (never linked or run): computed sender traits are *sound* - an adaptor does not promise
// is_always_scheduler_affine / sends_done=false / blocking=always_inline when one of the senders that can deliver its
// completion does not.  Only the sound direction is asserted (a trait may always be more pessimistic than necessary).
#include <unifex/let_value.hpp>
#include <unifex/when_all.hpp>
#include <unifex/stop_when.hpp>
#include <unifex/sequence.hpp>
#include <unifex/sender_concepts.hpp>
#include <unifex/receiver_concepts.hpp>
#include <unifex/blocking.hpp>
#include <exception>
namespace vp {
using namespace unifex;
template <bool Affine, bool Done, bool Inline, typename... Vs>
struct probe {
  template <template <typename...> class V, template <typename...> class T> using value_types = V<T<Vs>...>;
  template <template <typename...> class V> using error_types = V<std::exception_ptr>;
  static constexpr bool sends_done = Done;
  static constexpr blocking_kind blocking = Inline ? blocking_kind(blocking_kind::always_inline) : blocking_kind(blocking_kind::maybe);
  static constexpr bool is_always_scheduler_affine = Affine;
  struct op { void start() noexcept {} };
  template <typename R> friend op tag_invoke(tag_t<connect>, probe, R&&) noexcept { return {}; }
};
using A = probe<true, false, true>;       // affine, never done, always inline
using N = probe<false, false, true>;      // NOT affine
using D = probe<true, true, true>;        // sends done
using L = probe<true, false, false>;      // NOT always inline
// a predecessor with two value overloads and a factory that picks a different successor type for each
using P2 = probe<true, false, true, int, long>;
template <typename S1, typename S2> struct pick { S1 operator()(int&) const noexcept { return {}; } S2 operator()(long&) const noexcept { return {}; } };
template <typename S> using traits = sender_traits<remove_cvref_t<S>>;

// ---- scheduler affinity: every successor / child can be the one that completes the adaptor
static_assert(!traits<decltype(let_value(P2{}, pick<A, N>{}))>::is_always_scheduler_affine, "W-TRAIT let_value is not always-scheduler-affine when one of its possible successors is not");
static_assert(!traits<decltype(let_value(P2{}, pick<N, A>{}))>::is_always_scheduler_affine, "W-TRAIT let_value is not always-scheduler-affine when one of its possible successors is not");
static_assert(!traits<decltype(when_all(A{}, N{}))>::is_always_scheduler_affine || true, "W-TRAIT (when_all's affinity is decided by its own hop; not asserted)");
static_assert(!traits<decltype(stop_when(A{}, N{}))>::is_always_scheduler_affine, "W-TRAIT stop_when is not always-scheduler-affine when its trigger is not (the last child to finish completes it)");
static_assert(!traits<decltype(stop_when(N{}, A{}))>::is_always_scheduler_affine, "W-TRAIT stop_when is not always-scheduler-affine when its source is not");
static_assert(!traits<decltype(sequence(A{}, N{}))>::is_always_scheduler_affine, "W-TRAIT sequence is not always-scheduler-affine when its last sender is not");
// ---- sends_done: a successor that can send done makes the adaptor able to send done
static_assert(traits<decltype(let_value(P2{}, pick<A, D>{}))>::sends_done, "W-TRAIT let_value sends done when one of its possible successors does");
static_assert(traits<decltype(sequence(A{}, D{}))>::sends_done, "W-TRAIT sequence sends done when its last sender does");
// ---- blocking: always_inline only if every stage is
static_assert(traits<decltype(let_value(P2{}, pick<A, L>{}))>::blocking != blocking_kind::always_inline, "W-TRAIT let_value is not always_inline when one of its possible successors is not");
static_assert(traits<decltype(sequence(A{}, L{}))>::blocking != blocking_kind::always_inline, "W-TRAIT sequence is not always_inline when one of its stages is not");
}  // namespace vp
