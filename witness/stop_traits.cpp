// Compile-only witness: stop-token trait classification and what the adapters select from it.
#include <unifex/stop_token_concepts.hpp>
#include <unifex/inplace_stop_token.hpp>
#include <unifex/unstoppable_token.hpp>
#include <unifex/get_stop_token.hpp>
#include <type_traits>
using namespace unifex;

// a token whose stop_possible() is a constant expression *returning true* (e.g. a process-wide shutdown token)
struct always_possible_token {
  template <typename F> struct callback_type { template <typename T> callback_type(always_possible_token, T&&) noexcept {} };
  static constexpr bool stop_possible() noexcept { return true; }
  bool stop_requested() const noexcept { return false; }
};
// a token whose stop_possible() is a constant expression returning false
struct never_possible_token {
  template <typename F> struct callback_type { template <typename T> callback_type(never_possible_token, T&&) noexcept {} };
  static constexpr bool stop_possible() noexcept { return false; }
  static constexpr bool stop_requested() noexcept { return false; }
};

static_assert(is_stop_never_possible_v<unstoppable_token>, "W-STOPTRAIT unstoppable_token can never be stopped");
static_assert(is_stop_never_possible_v<never_possible_token>, "W-STOPTRAIT a token with constexpr stop_possible()==false can never be stopped");
static_assert(!is_stop_never_possible_v<inplace_stop_token>, "W-STOPTRAIT inplace_stop_token may be stopped");
static_assert(!is_stop_never_possible_v<always_possible_token>, "W-STOPTRAIT a token whose constexpr stop_possible() returns true is NOT a never-stoppable token");

// the adapter must not pick its "never possible" specialisation (which drops every request) for a stoppable token:
// only that specialisation's subscribe() ignores its argument and is callable with a prvalue of an unrelated type
template <typename T, typename = void> struct has_real_callback : std::false_type {};
static_assert(sizeof(inplace_stop_token_adapter<always_possible_token>) > sizeof(inplace_stop_token_adapter<never_possible_token>),
              "W-STOPTRAIT the adapter for a stoppable token carries its own stop source and forwarding callback");
static_assert(sizeof(inplace_stop_token_adapter<inplace_stop_token>) == sizeof(inplace_stop_token_adapter<never_possible_token>),
              "W-STOPTRAIT the adapters for inplace_stop_token and for never-stoppable tokens are stateless");
