// Compile-only witness: noexcept specifications are honest about the operations they cover.
// A function that allocates through a user allocator, or that constructs a user value from the argument it
// is actually given, must not be declared noexcept when that allocation / construction can throw —
// otherwise the documented "report through set_error / propagate out of spawn" becomes std::terminate.
#include <unifex/spawn_detached.hpp>
#include <unifex/v2/async_scope.hpp>
#include <unifex/just.hpp>
#include <unifex/just_done.hpp>
#include <memory>
#include <type_traits>
using namespace unifex;

// std::allocator<T>::allocate is not noexcept: spawning may throw bad_alloc, which must propagate
static_assert(!noexcept(spawn_detached(just(), std::declval<v2::async_scope&>(), std::allocator<std::byte>{})),
              "W-NOEXCEPT spawn_detached(just(), scope, allocator) allocates the operation state and must not be noexcept");
static_assert(!noexcept(spawn_detached(just_done(), std::declval<v2::async_scope&>())),
              "W-NOEXCEPT spawn_detached(just_done(), scope) allocates with the default allocator and must not be noexcept");
