// Compile-only witness: noexcept specifications are honest about the operations they cover.
// A function that allocates through a user allocator, or that constructs a user value from the argument it
// is actually given, must not be declared noexcept when that allocation / construction can throw —
// otherwise the documented "report through set_error / propagate out of spawn" becomes std::terminate.
#include <unifex/spawn_detached.hpp>
#include <unifex/v2/async_scope.hpp>
#include <unifex/just.hpp>
#include <unifex/just_done.hpp>
#include <memory>
#include <type_traits>
using namespace unifex;

// std::allocator<T>::allocate is not noexcept: spawning may throw bad_alloc, which must propagate
static_assert(!noexcept(spawn_detached(just(), std::declval<v2::async_scope&>(), std::allocator<std::byte>{})),
              "W-NOEXCEPT spawn_detached(just(), scope, allocator) allocates the operation state and must not be noexcept");
static_assert(!noexcept(spawn_detached(just_done(), std::declval<v2::async_scope&>())),
              "W-NOEXCEPT spawn_detached(just_done(), scope) allocates with the default allocator and must not be noexcept");

// ---- connect() of an adaptor is not noexcept when moving the consumer's receiver into the operation state can throw.
// This must hold in every build configuration: the debug build routes connect through the async-stack injection
// wrapper (_inject::make_op_wrapper), the release build does not, and both must give the same answer.
#include <unifex/then.hpp>
#include <unifex/sender_concepts.hpp>
#include <unifex/bulk_transform.hpp>
#include <unifex/execution_policy.hpp>
#include <exception>
#include <tuple>
namespace vp {
struct flaky_receiver {
  flaky_receiver() = default;
  flaky_receiver(flaky_receiver&&) noexcept(false) {}
  flaky_receiver(const flaky_receiver&) noexcept(false) {}
  template <typename... V> void set_value(V&&...) && noexcept {}
  template <typename E> void set_error(E&&) && noexcept {}
  void set_done() && noexcept {}
};
struct solid_receiver {
  template <typename... V> void set_value(V&&...) && noexcept {}
  template <typename E> void set_error(E&&) && noexcept {}
  void set_done() && noexcept {}
  void set_next(int) noexcept {}
};
inline auto then_sender() { return unifex::then(unifex::just(20), [](int x) noexcept { return x + 1; }); }
static_assert(!unifex::is_nothrow_connectable_v<decltype(then_sender()), flaky_receiver>,
              "W-NOEXCEPT connect(then(just(x), f), r) moves r into the operation state: it must not be noexcept when that move can throw (in every configuration)");
// a bulk source whose connect throws: bulk_transform's connect must not claim noexcept (finding F15)
struct throwing_bulk_source {
  template <template <typename...> class V, template <typename...> class T> using value_types = V<T<>>;
  template <template <typename...> class V> using error_types = V<std::exception_ptr>;
  template <template <typename...> class V, template <typename...> class T> using next_types = V<T<int>>;
  static constexpr bool sends_done = true;
  struct op { void start() noexcept {} };
  template <typename R> friend op tag_invoke(unifex::tag_t<unifex::connect>, throwing_bulk_source, R&&) noexcept(false);
};
inline auto bulk_sender() { return unifex::bulk_transform(throwing_bulk_source{}, [](int i) noexcept { return i; }, unifex::par); }
static_assert(!unifex::is_nothrow_connectable_v<decltype(bulk_sender()), solid_receiver>,
              "W-NOEXCEPT connect(bulk_transform(src, f, policy), r) connects src: it must not be noexcept when src's connect can throw");
}  // namespace vp

// ---- the receiver CPOs themselves report the noexcept-ness of the customisation they dispatch to (member or tag_invoke).
// bulk_schedule / bulk_transform / find_if decide from is_nothrow_next_receiver_v whether to wrap the per-index call in a
// try block; a CPO that claims noexcept for a throwing set_next turns "deliver set_error after k indices" into terminate.
namespace vp {
struct throwing_member_receiver {
  template <typename... V> void set_value(V&&...) && noexcept(false) {}
  template <typename E> void set_error(E&&) && noexcept {}
  void set_done() && noexcept {}
  void set_next(int) & noexcept(false) {}
};
struct throwing_tag_receiver {
  template <typename E> void set_error(E&&) && noexcept {}
  void set_done() && noexcept {}
  friend void tag_invoke(unifex::tag_t<unifex::set_value>, throwing_tag_receiver&&, int) noexcept(false) {}
};
static_assert(!noexcept(unifex::set_next(std::declval<throwing_member_receiver&>(), 0)),
              "W-NOEXCEPT set_next(r, i) dispatching to a member set_next that can throw must not be noexcept");
static_assert(!unifex::is_nothrow_next_receiver_v<throwing_member_receiver, int>,
              "W-NOEXCEPT is_nothrow_next_receiver_v must be false for a receiver whose member set_next can throw");
static_assert(!noexcept(unifex::set_value(std::declval<throwing_member_receiver&&>(), 0)),
              "W-NOEXCEPT set_value(r, v) dispatching to a member set_value that can throw must not be noexcept");
static_assert(!noexcept(unifex::set_value(std::declval<throwing_tag_receiver&&>(), 0)),
              "W-NOEXCEPT set_value(r, v) dispatching to a tag_invoke customisation that can throw must not be noexcept");
static_assert(!unifex::is_nothrow_receiver_of_v<throwing_member_receiver, int>,
              "W-NOEXCEPT is_nothrow_receiver_of_v must be false for a receiver whose member set_value can throw");
static_assert(!unifex::is_nothrow_receiver_of_v<throwing_tag_receiver, int>,
              "W-NOEXCEPT is_nothrow_receiver_of_v must be false for a receiver whose tag_invoke set_value can throw");
}  // namespace vp

// ---- the dispatch layer itself: is_nothrow_tag_invocable_v and the connect CPO report a throwing customisation as throwing
// (every adaptor's noexcept specification and every "try { connect } catch -> set_error" decision is computed from them).
#include <unifex/tag_invoke.hpp>
namespace vp {
inline constexpr struct probe_cpo_t {
  template <typename T>
  auto operator()(T&& t) const noexcept(unifex::is_nothrow_tag_invocable_v<probe_cpo_t, T>)
      -> unifex::tag_invoke_result_t<probe_cpo_t, T> { return unifex::tag_invoke(*this, (T&&)t); }
} probe_cpo{};
struct throwing_custom { friend int tag_invoke(probe_cpo_t, throwing_custom) noexcept(false) { return 0; } };
struct solid_custom { friend int tag_invoke(probe_cpo_t, solid_custom) noexcept { return 0; } };
static_assert(unifex::is_tag_invocable_v<probe_cpo_t, throwing_custom> && !unifex::is_nothrow_tag_invocable_v<probe_cpo_t, throwing_custom>,
              "W-NOEXCEPT is_nothrow_tag_invocable_v must be false for a tag_invoke customisation declared noexcept(false)");
static_assert(!noexcept(probe_cpo(throwing_custom{})) && noexcept(probe_cpo(solid_custom{})),
              "W-NOEXCEPT a CPO whose noexcept is computed from is_nothrow_tag_invocable_v reports the customisation's own noexcept");
struct member_connect_sender {
  template <template <typename...> class V, template <typename...> class T> using value_types = V<T<>>;
  template <template <typename...> class V> using error_types = V<std::exception_ptr>;
  static constexpr bool sends_done = false;
  struct op { void start() noexcept {} };
  template <typename R> op connect(R&&) && noexcept(false);
};
static_assert(!unifex::is_nothrow_connectable_v<member_connect_sender, solid_receiver>,
              "W-NOEXCEPT connect(s, r) dispatching to a member connect that can throw must not be noexcept");
static_assert(!unifex::is_nothrow_connectable_v<throwing_bulk_source, solid_receiver>,
              "W-NOEXCEPT connect(s, r) dispatching to a tag_invoke connect that can throw must not be noexcept");
}  // namespace vp
