// Compile-only witness (C++20): the receiver that stores a co_awaited sender's value is noexcept exactly when
// constructing the stored value from the arguments it is actually given cannot throw.
#include <unifex/await_transform.hpp>
#include <unifex/task.hpp>
#include <type_traits>
using namespace unifex;
struct throw_copy {
  throw_copy();
  throw_copy(throw_copy&&) noexcept;
  throw_copy(const throw_copy&);          // may throw
};
using promise_t = typename task<void>::promise_type;
using rec_t = typename _await_tfx::_awaitable_base<promise_t, throw_copy, false>::type::_rec;
static_assert(noexcept(std::declval<rec_t&&>().set_value(std::declval<throw_copy&&>())),
              "W-NOEXCEPT-CORO storing an rvalue of a nothrow-movable value is noexcept");
static_assert(!noexcept(std::declval<rec_t&&>().set_value(std::declval<const throw_copy&>())),
              "W-NOEXCEPT-CORO storing from a const lvalue whose copy constructor may throw must not be noexcept (the sender must be able to fall back to set_error)");
