// Compile-only witness (never linked or run): the execution policy that bulk_transform reports upstream is the
// conjunction of the policy its downstream receiver permits and the policy given for its own function —
// unsequenced only if both allow unsequenced, parallel only if both allow parallel — for all 4 x 4 combinations,
// and the same through two stacked transforms and through bulk_join (which permits par_unseq).
#include <unifex/bulk_transform.hpp>
#include <unifex/bulk_join.hpp>
#include <unifex/execution_policy.hpp>
#include <unifex/get_execution_policy.hpp>
#include <type_traits>
using namespace unifex;

template <typename Policy>
struct downstream {
  void set_next() & noexcept;
  void set_value() && noexcept;
  void set_error(std::exception_ptr) && noexcept;
  void set_done() && noexcept;
  friend constexpr Policy tag_invoke(tag_t<get_execution_policy>, const downstream&) noexcept { return {}; }
};
struct fn { void operator()() const noexcept; };

template <typename A, typename B> struct meet { using type = sequenced_policy; };
template <bool U, bool P> struct mk { using type = sequenced_policy; };
template <> struct mk<true, false> { using type = unsequenced_policy; };
template <> struct mk<false, true> { using type = parallel_policy; };
template <> struct mk<true, true> { using type = parallel_unsequenced_policy; };
template <typename P> inline constexpr bool U = std::is_same_v<P, unsequenced_policy> || std::is_same_v<P, parallel_unsequenced_policy>;
template <typename P> inline constexpr bool Par = std::is_same_v<P, parallel_policy> || std::is_same_v<P, parallel_unsequenced_policy>;
template <typename A, typename B> using meet_t = typename mk<U<A> && U<B>, Par<A> && Par<B>>::type;

template <typename FuncPolicy, typename RecvPolicy>
using reported_t = remove_cvref_t<decltype(get_execution_policy(
    std::declval<const _bulk_tfx::tfx_receiver<fn, FuncPolicy, downstream<RecvPolicy>>&>()))>;

#define CHECK(FP, RP) \
  static_assert(std::is_same_v<reported_t<FP, RP>, meet_t<FP, RP>>, "W-POLICY bulk_transform(" #FP ") over a receiver permitting " #RP " must report the meet of the two policies")
#define ROW(FP) CHECK(FP, sequenced_policy); CHECK(FP, unsequenced_policy); CHECK(FP, parallel_policy); CHECK(FP, parallel_unsequenced_policy)
ROW(sequenced_policy);
ROW(unsequenced_policy);
ROW(parallel_policy);
ROW(parallel_unsequenced_policy);

// two stacked transforms: the outer one sees the inner one's report as its receiver's policy
template <typename F1, typename F2, typename RP>
using stacked_t = remove_cvref_t<decltype(get_execution_policy(
    std::declval<const _bulk_tfx::tfx_receiver<fn, F1, _bulk_tfx::tfx_receiver<fn, F2, downstream<RP>>>&>()))>;
#define CHECK2(F1, F2, RP) \
  static_assert(std::is_same_v<stacked_t<F1, F2, RP>, meet_t<F1, meet_t<F2, RP>>>, "W-POLICY stacked bulk_transform(" #F1 ", " #F2 ") over " #RP)
CHECK2(unsequenced_policy, parallel_unsequenced_policy, parallel_unsequenced_policy);
CHECK2(parallel_unsequenced_policy, unsequenced_policy, parallel_unsequenced_policy);
CHECK2(parallel_policy, parallel_unsequenced_policy, parallel_unsequenced_policy);
CHECK2(parallel_unsequenced_policy, parallel_unsequenced_policy, parallel_policy);
CHECK2(unsequenced_policy, parallel_policy, parallel_unsequenced_policy);

// bulk_join's receiver permits everything
static_assert(std::is_same_v<remove_cvref_t<decltype(get_execution_policy(std::declval<const _bulk_join::_join_receiver<downstream<sequenced_policy>>::type&>()))>, parallel_unsequenced_policy>,
              "W-POLICY bulk_join permits parallel_unsequenced");
