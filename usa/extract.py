"""Fact extraction driver: runs tools/usa-extract over /repo's *current working tree*.

One translation unit that includes every header under include/unifex (template patterns are
extracted, so no instantiation is needed) plus one unit per source/*.cpp, per configuration.
Results are cached under /verif/out/facts/<digest>/ where <digest> is a content hash of every
input file, the extractor binary and the configuration flags: a changed tree is always
re-extracted, an unchanged one is not parsed twenty times by twenty checks.
"""
import fcntl, hashlib, json, os, subprocess, sys, time
from concurrent.futures import ThreadPoolExecutor

VERIF = os.path.dirname(os.path.dirname(os.path.abspath(__file__)))
REPO = os.environ.get('USA_REPO', '/repo')
OUT = os.path.join(VERIF, 'out')
EXTRACT = os.path.join(VERIF, 'tools', 'usa-extract')

# configuration -> compiler flags (clang 14 front end)
CONFIGS = {
    'd20': ['-std=c++20', '-UNDEBUG'],
    'd17': ['-std=gnu++17', '-UNDEBUG'],
    'r17': ['-std=gnu++17', '-DNDEBUG'],          # the pinned build's configuration
    'r20': ['-std=c++20', '-DNDEBUG'],
    'v20': ['-std=c++20', '-UNDEBUG', '-DUNIFEX_ENABLE_CONTINUATION_VISITATIONS=1'],
}
TIER_CONFIGS = {'quick': ['d20', 'd17', 'r17'], 'thorough': ['d20', 'd17', 'r17', 'r20', 'v20']}

# headers that only parse as C++20 (coroutines / abbreviated templates); confirmed by parsing
# each header alone with clang 14 -std=gnu++17.  A parse error in any *other* header in a
# gnu++17 configuration is analysis-broken.
CXX20_ONLY = {
    'unifex/async_pass.hpp', 'unifex/at_coroutine_exit.hpp', 'unifex/await_transform.hpp',
    'unifex/connect_awaitable.hpp', 'unifex/coroutine_concepts.hpp', 'unifex/create_basic_sender.hpp',
    'unifex/create_raw_sender.hpp', 'unifex/detail/make_traits.hpp', 'unifex/stop_if_requested.hpp',
    'unifex/task.hpp', 'unifex/with_scheduler_affinity.hpp',
}
NOT_UNITS = {'unifex/detail/prologue.hpp', 'unifex/detail/epilogue.hpp'}
# non-self-contained headers need these first
PRELUDE = ['unifex/config.hpp', 'unifex/async_scope.hpp', 'unifex/any_unique.hpp', 'unifex/tracing/async_stack.hpp']


class AnalysisBroken(Exception):
    pass


def repo_inputs(repo=None):
    repo = repo or REPO
    hdrs, srcs = [], []
    inc = os.path.join(repo, 'include')
    for d, _, fs in os.walk(os.path.join(inc, 'unifex')):
        for f in fs:
            if f.endswith('.hpp'):
                rel = os.path.relpath(os.path.join(d, f), inc)
                if '/win32/' in rel: continue
                hdrs.append(rel)
    for d, _, fs in os.walk(os.path.join(repo, 'source')):
        for f in fs:
            if f.endswith('.cpp'):
                rel = os.path.relpath(os.path.join(d, f), repo)
                if '/win32/' in rel: continue
                srcs.append(rel)
    return sorted(hdrs), sorted(srcs)


def digest(repo, hdrs, srcs):
    h = hashlib.sha256()
    for p in [EXTRACT] + [os.path.join(repo, 'include', x) for x in hdrs] + [os.path.join(repo, x) for x in srcs]:
        h.update(p.encode())
        with open(p, 'rb') as fh: h.update(fh.read())
    h.update(json.dumps(CONFIGS, sort_keys=True).encode())
    return h.hexdigest()[:20]


def _run_unit(job):
    tu, prefix, out, flags, repo = job
    cmd = [EXTRACT, '-usa-prefix=' + prefix, '-usa-out=' + out, tu, '--'] + flags + \
          ['-I' + os.path.join(repo, 'include'), '-Wno-everything', '-ferror-limit=0']
    p = subprocess.run(cmd, stdout=subprocess.PIPE, stderr=subprocess.STDOUT, text=True)
    errs = [l for l in p.stdout.splitlines() if ' error: ' in l or 'fatal error' in l]
    return out, p.returncode, errs


def extract(configs, repo=None, verbose=False):
    """returns {config: [fact files]}; raises AnalysisBroken when a unit does not parse"""
    repo = repo or REPO
    if not os.path.exists(EXTRACT):
        raise AnalysisBroken('extractor not built: run `make -C %s/tools`' % VERIF)
    hdrs, srcs = repo_inputs(repo)
    dg = digest(repo, hdrs, srcs)
    root = os.path.join(OUT, 'facts', dg)
    os.makedirs(root, exist_ok=True)
    lock = open(os.path.join(root, '.lock'), 'w')
    fcntl.flock(lock, fcntl.LOCK_EX)
    try:
        result = {}
        jobs = []
        for cfg in configs:
            cdir = os.path.join(root, cfg)
            done = os.path.join(cdir, '.done')
            if os.path.exists(done):
                result[cfg] = sorted(os.path.join(cdir, f) for f in os.listdir(cdir) if f.endswith('.json'))
                continue
            os.makedirs(cdir, exist_ok=True)
            flags = CONFIGS[cfg]
            is17 = any('++17' in f for f in flags)
            tu = os.path.join(cdir, 'all_headers.cpp')
            with open(tu, 'w') as fh:
                for h in PRELUDE: fh.write('#include <%s>\n' % h)
                for h in hdrs:
                    if h in NOT_UNITS: continue
                    if is17 and h in CXX20_ONLY: continue
                    fh.write('#include <%s>\n' % h)
            jobs.append((cfg, (tu, os.path.join(repo, 'include') + '/', os.path.join(cdir, 'hdr.json'), flags, repo)))
            for s in srcs:
                sp = os.path.join(repo, s)
                jobs.append((cfg, (sp, sp, os.path.join(cdir, 'src_' + s.replace('/', '_')[:-4] + '.json'), flags, repo)))
        if jobs:
            t0 = time.time()
            with ThreadPoolExecutor(max_workers=10) as ex:
                res = list(ex.map(_run_unit, [j[1] for j in jobs]))
            bad = []
            for (cfg, job), (out, rc, errs) in zip(jobs, res):
                if rc != 0 or errs or not os.path.exists(out):
                    bad.append((cfg, job[0], rc, errs[:5]))
            if bad:
                msg = '; '.join('%s %s rc=%s %s' % (c, os.path.basename(t), rc, e) for c, t, rc, e in bad[:4])
                raise AnalysisBroken('extraction failed (the tree does not parse with clang 14?): ' + msg)
            for cfg in {j[0] for j in jobs}:
                cdir = os.path.join(root, cfg)
                open(os.path.join(cdir, '.done'), 'w').write('%.1f\n' % (time.time() - t0))
                result[cfg] = sorted(os.path.join(cdir, f) for f in os.listdir(cdir) if f.endswith('.json'))
            if verbose: print('extracted %d units in %.1fs' % (len(jobs), time.time() - t0), file=sys.stderr)
        _gc(os.path.join(OUT, 'facts'), keep=dg)
        return result, dg
    finally:
        fcntl.flock(lock, fcntl.LOCK_UN)
        lock.close()


def _gc(factsdir, keep, maxdirs=6):
    """keep the cache small: drop the oldest digests beyond maxdirs"""
    try:
        ds = [d for d in os.listdir(factsdir) if d != keep and os.path.isdir(os.path.join(factsdir, d))]
        ds.sort(key=lambda d: os.path.getmtime(os.path.join(factsdir, d)))
        import shutil
        now = time.time()
        for d in ds[:-maxdirs] if len(ds) > maxdirs else []:
            # never remove a directory another (parallel) check may still be writing or reading
            if now - os.path.getmtime(os.path.join(factsdir, d)) < 45 * 60: continue
            shutil.rmtree(os.path.join(factsdir, d), ignore_errors=True)
    except OSError:
        pass


if __name__ == '__main__':
    cfgs = sys.argv[1:] or TIER_CONFIGS['quick']
    t = time.time()
    r, dg = extract(cfgs, verbose=True)
    for c, fs in r.items(): print(c, len(fs), 'fact files', dg)
    print('%.1fs' % (time.time() - t))
