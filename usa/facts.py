"""Fact loading and the event graph used by the path rules.

A *function* is the JSON object written by usa-extract.  `Graph(f)` flattens its CFG into an
event-level graph: node = (block id, index) for every event, plus one node per block terminator
and one per empty block.  Edges out of a two-way terminator are labelled True/False (successor 0
is the true branch in clang's CFG).  Exceptional control flow, which clang's CFG omits without
EH edges, is added conservatively: every may-throw call inside a `try` body gets an edge to each
handler of that try.
"""
import collections, json, os, re

TERMQ = {'unifex::_rec_cpo::set_value': 'value', 'unifex::_rec_cpo::set_error': 'error',
         'unifex::_rec_cpo::set_done': 'done'}

NOTHROW_NAMES = {
    'start', 'deactivate_union_member', 'destruct', 'release', 'reset', 'set_error', 'set_done', 'get', 'exchange',
    'move', 'forward', 'addressof', 'current_exception', 'request_stop', 'load', 'store', 'fetch_add', 'fetch_sub',
    'fetch_or', 'fetch_and', 'compare_exchange_strong', 'compare_exchange_weak', 'stop_requested', 'get_stop_token',
    'terminate', 'has_value', 'as_const', 'unsubscribe', 'deregister_callbacks', 'make_exception_ptr',
}


def family_of(q):
    """detail namespace of an algorithm: unifex::_when_all::... -> unifex::_when_all"""
    parts = q.split('::')
    for i, p in enumerate(parts):
        if i > 0 and p.startswith('_') and p not in ('_cpo',):
            return '::'.join(parts[:i + 1])
    return '::'.join(parts[:2])


def relfile(loc):
    p = loc.rsplit(':', 1)[0]
    for pre in ('/repo/',):
        i = p.find('/include/unifex/')
        if i >= 0: return p[i + 1:]
        i = p.find('/source/')
        if i >= 0: return p[i + 1:]
    return p


class Facts:
    def __init__(self, files, config):
        self.config = config
        self.funcs, self.recs = [], []
        seen_f, seen_r = set(), set()
        for p in files:
            with open(p) as fh: d = json.load(fh)
            unit = os.path.basename(p)[:-5]
            for f in d['functions']:
                key = (f['qname'], f['loc'], f.get('fid'))
                if key in seen_f: continue
                seen_f.add(key)
                f['_unit'] = unit; f['_cfg'] = config; f['file'] = relfile(f['loc'])
                self.funcs.append(f)
            for r in d['records']:
                key = (r['qname'], r['loc'])
                if key in seen_r: continue
                seen_r.add(key)
                r['_unit'] = unit; r['file'] = relfile(r['loc'])
                self.recs.append(r)
        self.by_q = collections.defaultdict(list)
        self.by_record = collections.defaultdict(list)
        self.by_file = collections.defaultdict(list)
        self.by_family = collections.defaultdict(list)
        self.lambdas = {}
        for f in self.funcs:
            self.by_q[f['qname']].append(f)
            if f.get('record'): self.by_record[f['record']].append(f)
            self.by_file[f['file']].append(f)
            f['_family'] = family_of(f.get('record') or f['qname'])
            self.by_family[f['_family']].append(f)
            if f.get('lambda'): self.lambdas[f['fid']] = f
        self.rec_by_q = collections.defaultdict(list)
        for r in self.recs:
            self.rec_by_q[r['qname']].append(r)
            r['_family'] = family_of(r['qname'])

    # ---- lookup helpers
    def functions(self, file=None, record=None, name=None, qname_re=None, family=None):
        src = self.funcs
        if file is not None: src = self.by_file.get(file, [])
        elif record is not None: src = self.by_record.get(record, [])
        elif family is not None: src = self.by_family.get(family, [])
        out = []
        for f in src:
            if file is not None and f['file'] != file: continue
            if record is not None and f.get('record') != record: continue
            if name is not None and f['name'] != name: continue
            if family is not None and f['_family'] != family: continue
            if qname_re is not None and not re.search(qname_re, f['qname']): continue
            out.append(f)
        return out

    def lambdas_of(self, f):
        """lambda bodies lexically inside f (transitively)"""
        key = f['qname'] + '@' + str(f['line'])
        return [g for g in self.funcs if g.get('lambda') and g.get('parent_fn') == key]


def events(f):
    for b in f.get('blocks', []):
        for i, e in enumerate(b['elems']):
            yield b, i, e


def calls(f, name=None, qname=None, kind=None):
    for b, i, e in events(f):
        if e['k'] != 'call': continue
        ce = e['callee']
        if name is not None and ce.get('name') != name: continue
        if qname is not None and ce.get('qname') != qname: continue
        if kind is not None and ce.get('kind') != kind: continue
        yield b, i, e


def is_terminal(e):
    return e['k'] == 'call' and e['callee'].get('qname') in TERMQ


def channel(e):
    return TERMQ.get(e['callee'].get('qname'))


def memorder(e):
    """normalised memory orders mentioned in a call's arguments"""
    out = []
    for a in e.get('args', []):
        if isinstance(a, dict) and a.get('op') == 'path':
            m = re.search(r'memory_order_(\w+)', a.get('p', ''))
            if m: out.append(m.group(1))
    return out


def expr_paths(x, acc=None):
    """all leaf paths in an expression tree"""
    acc = [] if acc is None else acc
    if isinstance(x, dict):
        if 'p' in x: acc.append(x['p'])
        for k in ('l', 'r', 'e', 'c', 't', 'f'):
            if k in x: expr_paths(x[k], acc)
    return acc


def expr_eids(x, acc=None):
    acc = [] if acc is None else acc
    if isinstance(x, dict):
        if 'eid' in x: acc.append(x['eid'])
        for k in ('l', 'r', 'e', 'c', 't', 'f'):
            if k in x: expr_eids(x[k], acc)
    return acc


def may_throw(e):
    if e['k'] != 'call': return False
    if e.get('nothrow'): return False
    ce = e['callee']
    if ce.get('name') in NOTHROW_NAMES: return False
    if ce.get('qname') in TERMQ: return False
    return True


class Graph:
    """event-level graph of one function"""

    def __init__(self, f):
        self.f = f
        self.blocks = {b['id']: b for b in f.get('blocks', [])}
        self.succ = collections.defaultdict(list)   # node -> [(node, label)]
        self.pred = collections.defaultdict(list)
        self.ev = {}                                 # node -> event dict (or terminator dict with k='term')
        self.first = {}                              # block id -> first node
        self.term_node = {}
        for bid, b in self.blocks.items():
            n = len(b['elems'])
            for i, e in enumerate(b['elems']):
                self.ev[(bid, i)] = e
            t = dict(b.get('term') or {}); t['k'] = 'term'
            self.ev[(bid, n)] = t
            self.term_node[bid] = (bid, n)
            self.first[bid] = (bid, 0)
        for bid, b in self.blocks.items():
            n = len(b['elems'])
            for i in range(n):
                self._edge((bid, i), (bid, i + 1), None)
            t = b.get('term')
            succs = b.get('succs', [])
            if t and t.get('kind') == 'CXXTryStmt':
                continue  # handler entry edges are added from throwing calls below
            two = t is not None and t.get('cond') is not None and len(succs) == 2 and t.get('kind') != 'SwitchStmt'
            for idx, s in enumerate(succs):
                if not isinstance(s, int): continue
                lab = None
                if two: lab = (idx == 0)
                elif t is not None and t.get('kind') == 'SwitchStmt': lab = ('case', (t.get('cases') or [])[idx] if idx < len(t.get('cases') or []) else '?')
                self._edge((bid, n), self.first[s], lab)
        # exceptional edges
        tries = f.get('try', [])
        self.handlers = {}
        if tries:
            trybegin = {}
            for bid, b in self.blocks.items():
                t = b.get('term')
                if t and t.get('kind') == 'CXXTryStmt':
                    cands = [tr for tr in tries if tr['try_begin'] >= t['line']]
                    if cands:
                        tr = min(cands, key=lambda x: x['try_begin'])
                        trybegin[tr['try_begin']] = [s for s in b['succs'] if isinstance(s, int)]
            self.handlers = trybegin
            for node, e in list(self.ev.items()):
                if e.get('k') == 'call' and may_throw(e):
                    ln = e.get('line', 0)
                    inner = [tr for tr in tries if tr['try_begin'] <= ln <= tr['try_end'] and tr['try_begin'] in trybegin]
                    if inner:
                        tr = max(inner, key=lambda x: x['try_begin'])   # innermost
                        for hb in trybegin[tr['try_begin']]:
                            self._edge(node, self.first[hb], 'exc')
        self.entry = self.first.get(f.get('entry'))
        self.exit = self.first.get(f.get('exit'))

    def _edge(self, a, b, lab):
        self.succ[a].append((b, lab))
        self.pred[b].append((a, lab))

    def nodes(self, pred=None):
        for n, e in self.ev.items():
            if pred is None or pred(e): yield n

    def call_nodes(self, name=None, qname=None):
        for n, e in self.ev.items():
            if e.get('k') != 'call': continue
            if name is not None and e['callee'].get('name') != name: continue
            if qname is not None and e['callee'].get('qname') != qname: continue
            yield n

    def node_of_eid(self, eid):
        for n, e in self.ev.items():
            if e.get('k') == 'call' and e.get('eid') == eid: return n
        return None

    def reach(self, start, blocked=(), blocked_edges=(), skip_exc=False):
        """nodes reachable from `start` (inclusive) without entering `blocked` nodes or using blocked edges"""
        blocked = set(blocked); blocked_edges = set(blocked_edges)
        seen = set(); work = [start] if not isinstance(start, (list, set)) else list(start)
        while work:
            n = work.pop()
            if n in seen or n in blocked: continue
            seen.add(n)
            for m, lab in self.succ.get(n, []):
                if (n, m) in blocked_edges: continue
                if skip_exc and lab == 'exc': continue
                if m not in seen and m not in blocked: work.append(m)
        return seen

    def reach_back(self, start, blocked=()):
        blocked = set(blocked); seen = set(); work = [start]
        while work:
            n = work.pop()
            if n in seen or n in blocked: continue
            seen.add(n)
            for m, lab in self.pred.get(n, []):
                if m not in seen and m not in blocked: work.append(m)
        return seen

    def dominated_by_any(self, target, doms):
        """every path entry -> target passes through a node of `doms`"""
        if target in doms: return True
        return target not in self.reach(self.entry, blocked=doms)

    def reachable(self, node):
        return node in self.reach(self.entry)

    def must_reach_before_exit(self, start, posts, also_ok=()):
        """every path from `start` to function exit (or a dead end) passes through a node of `posts`
        (start itself excluded)"""
        seen = set(); work = [m for m, _ in self.succ.get(start, [])]
        posts = set(posts) | set(also_ok)
        while work:
            n = work.pop()
            if n in seen: continue
            if n in posts: continue
            seen.add(n)
            ss = self.succ.get(n, [])
            if n == self.exit or (not ss and self.ev[n].get('k') == 'term' and n[0] == self.f.get('exit')):
                return False
            for m, _ in ss: work.append(m)
        return True

    def branch_edges(self, cond_pred):
        """(term node, true successor, false successor) for terminators whose condition satisfies cond_pred"""
        out = []
        for n, e in self.ev.items():
            if e.get('k') == 'term' and e.get('cond') is not None and cond_pred(e):
                t = f_ = None
                for m, lab in self.succ.get(n, []):
                    if lab is True: t = m
                    elif lab is False: f_ = m
                if t is not None or f_ is not None: out.append((n, t, f_))
        return out

    def line(self, node):
        e = self.ev.get(node, {})
        return e.get('line') or self.blocks[node[0]].get('l0') or self.f['line']


def accesses(e):
    """[(path, 'r'|'w')] for every access path mentioned by event/terminator e"""
    out = []
    k = e.get('k')
    def rd(x):
        for p in expr_paths(x): out.append((p, 'r'))
    if k == 'call':
        b = e['callee'].get('base')
        if b: out.append((b, 'r'))
        for a in e.get('args', []): rd(a)
    elif k == 'assign':
        out.append((e['lhs'], 'w')); rd(e.get('rhs'))
    elif k == 'incdec':
        out.append((e['lhs'], 'w'))
    elif k == 'decl':
        for v in e['vars']: rd(v.get('init'))
    elif k == 'init':
        if e.get('field'): out.append(('this.' + e['field'], 'w'))
        rd(e.get('v'))
    elif k == 'ret':
        rd(e.get('v'))
    elif k == 'term':
        rd(e.get('cond'))
    elif k in ('construct', 'initlist'):
        for a in e.get('args', []): rd(a)
    elif k in ('delete', 'pseudodtor'):
        out.append((e.get('p', ''), 'r'))
    return out


def last_field(path):
    """last named component of an access path: this.a_.b_ -> b_ ;  x.load() -> load()"""
    c = path.split('.')[-1] if path else ''
    if c.startswith('#') and '::' in c: c = c.rsplit('::', 1)[1]     # dependent qualified member: #base::member
    return c


def fields_of(path):
    return [c for c in path.split('.') if c and not c.endswith('()')]


def guard_vars(f):
    """local scope_guard variables of function f: {var: lambda line}; recognises `scope_guard g = [..]{}`,
    `scope_guard g{[..]{}}` and `auto g = scope_guard{[..]{}}`"""
    out = {}
    sg_lines = set()
    for b, i, e in events(f):
        if e['k'] in ('construct', 'initlist') and 'scope_guard' in (e.get('type') or ''):
            for a in e.get('args', []):
                m = re.match(r'<lambda@(\d+)>', (a.get('p') or '') if isinstance(a, dict) else '')
                if m: sg_lines.add(int(m.group(1)))
    for b, i, e in events(f):
        if e['k'] != 'decl': continue
        for v in e['vars']:
            m = re.match(r'<lambda@(\d+)>', ((v.get('init') or {}).get('p') or ''))
            if not m: continue
            t = (v.get('type') or '') + ' ' + (v.get('wtype') or '')
            if 'scope_guard' in t or int(m.group(1)) in sg_lines: out[v['var']] = int(m.group(1))
    return out
