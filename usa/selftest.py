"""Self-test of the checker (not a manifest command): python3 -m usa.selftest [ids or property ids...]

Every mutant in selftest/mutants.json is a one-hunk textual replacement applied to a scratch copy of
/repo's include/ and source/ under /verif/out/scratch (never /repo).  `expect` = "fire": the check
for `prop` must exit 1 and (when `rule` is given) name that rule; `expect` = "silent" (negative
control: behaviour-preserving edit): the check must exit 0.
"""
import json, os, shutil, subprocess, sys
from concurrent.futures import ThreadPoolExecutor

VERIF = os.path.dirname(os.path.dirname(os.path.abspath(__file__)))
REPO = '/repo'


def run_one(m):
    sd = os.path.join(VERIF, 'out', 'scratch', m['id'])
    shutil.rmtree(sd, ignore_errors=True)
    os.makedirs(sd)
    try:
        for d in ('include', 'source'):
            shutil.copytree(os.path.join(REPO, d), os.path.join(sd, d))
        p = os.path.join(sd, m['file'])
        s = open(p).read()
        if s.count(m['old']) != 1:
            return m, 'BAD-MUTANT', 'old text occurs %d times' % s.count(m['old'])
        open(p, 'w').write(s.replace(m['old'], m['new']))
        if m.get('compile', True):
            # still compiles (syntax + semantics) with the repo's compiler
            tu = os.path.join(sd, 'tu.cpp')
            rel = m['file']
            inc = rel[len('include/'):] if rel.startswith('include/') else None
            with open(tu, 'w') as fh:
                fh.write('#include <%s>\n' % inc if inc else '#include "%s"\n' % os.path.join(sd, rel))
            std = m.get('std', 'gnu++17')
            c = subprocess.run(['g++', '-std=' + std, '-fsyntax-only', '-I' + os.path.join(sd, 'include'), tu] + (['-fcoroutines'] if std != 'gnu++17' else []),
                               stdout=subprocess.PIPE, stderr=subprocess.STDOUT, text=True)
            if c.returncode != 0:
                return m, 'BAD-MUTANT', 'does not compile: ' + c.stdout[-300:]
        env = dict(os.environ)
        r = subprocess.run([sys.executable, '-m', 'usa.check', m['prop'], '--repo', sd, '--no-write'], cwd=VERIF, env=env,
                           stdout=subprocess.PIPE, stderr=subprocess.STDOUT, text=True)
        out = r.stdout
        if m.get('expect', 'fire') == 'fire':
            if r.returncode == 1 and (not m.get('rule') or (' ' + m['rule'] + ' ') in out or m['rule'] + ' ' in out):
                return m, 'ok', [l for l in out.splitlines() if l.startswith('  R-')][:2]
            return m, 'MISSED' if r.returncode == 0 else 'WRONG(rc=%d)' % r.returncode, out[-600:]
        else:
            if r.returncode == 0: return m, 'ok', 'silent'
            return m, 'FALSE-ALARM(rc=%d)' % r.returncode, out[-600:]
    finally:
        shutil.rmtree(sd, ignore_errors=True)


def main():
    ms = json.load(open(os.path.join(VERIF, 'selftest', 'mutants.json')))
    sel = sys.argv[1:]
    if sel: ms = [m for m in ms if m['id'] in sel or m['prop'] in sel]
    bad = 0
    with ThreadPoolExecutor(max_workers=4) as ex:
        for m, status, info in ex.map(run_one, ms):
            print('%-10s %-4s %-40s %s' % (status, m['prop'], m['id'], info if status != 'ok' else (info if isinstance(info, str) else ' | '.join(x.strip()[:110] for x in info))))
            if status != 'ok': bad += 1
    print('%d mutants, %d not as expected' % (len(ms), bad))
    return 1 if bad else 0


if __name__ == '__main__':
    sys.exit(main())
