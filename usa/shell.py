"""interactive helper: from usa.shell import *; F = load('d20')"""
import glob, json, os, sys
from .facts import *
from . import extract
def load(cfg='d20', repo=None):
    files, dg = extract.extract([cfg], repo=repo)
    return Facts(files[cfg], cfg)
