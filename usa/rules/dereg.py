"""R-DEREG — every stop callback an operation registered on its receiver's token is deregistered
before that receiver is completed (C04; timers C07; I/O C14; cancel wrappers C19; type erasure C18).

Interprocedural must-analysis on the inlined supergraph of every entry point (call-graph root) of the
operation's family: on every path from the entry point to a completion of the receiver owned by the
operation, the registration member is destructed/reset (and not re-constructed afterwards).  Paths
through `if constexpr` are enumerated per consistent assignment of the distinct conditions, so
"constructed only if stoppable / destructed only if stoppable" is not a false alarm.
"""
import collections, itertools, re

from ..core import rule, site, Broken
from ..facts import last_field, family_of
from ..inline import Super, TooBig

REG_TYPE = re.compile(r'callback_type\s*<|stop_callback_t|stoken_callback_t|receiver_callback_t|callback_t\s*<|inplace_stop_token_adapter_subscription|manual_lifetime<stop_callback>')
CONSTRUCT = {'construct', 'emplace', 'construct_with', 'subscribe', 'register_callbacks', 'activate_union_member'}
DESTRUCT = {'destruct', 'reset', 'unsubscribe', 'deregister_callbacks', 'deactivate_union_member'}

# (record, member) -> property owning the instance
OWNER_PROP = [
    (r'_timed_single_thread_context|_thread_unsafe_event_loop|schedule_at_sender', 'C07'),
    (r'linuxos::', 'C14'),
    (r'_cancellable|_detach_on_cancel|_stop_on_request|_create_basic_sndr', 'C19'),
    (r'_any::', 'C18'),
    (r'_task::', 'C10'),
    (r'_type_erase::|_take_until|_stop_immediately', 'C13'),
    (r'.', 'C04'),
]
SKIP = {
    ('unifex::inplace_stop_token_adapter', 'callback_'): 'the adapter itself; its users are checked through subscribe/unsubscribe',
    ('unifex::_create_basic_sndr::_opaque_safe_cb', 'callback_'): 'a function pointer, not a stop-callback registration',
    ('unifex::_stop_on_request::_op::type', 'callbackState_'): 'the election word, not a registration',
}


def registrations(F):
    out = []
    seen = set()
    for r in F.recs:
        for fl in r['fields']:
            if fl.get('static'): continue
            t = (fl.get('wtype') or '') + ' ' + fl.get('type', '')
            if not REG_TYPE.search(t): continue
            k = (r['qname'], fl['name'])
            if k in seen or k in SKIP: continue
            seen.add(k)
            out.append((r, fl))
    return out


def prop_of(rq):
    for rx, p in OWNER_PROP:
        if re.search(rx, rq): return p


def receiver_fields(F, fam):
    """family records -> names of their Receiver-typed fields"""
    out = collections.defaultdict(set)
    for r in F.recs:
        if r['_family'] != fam: continue
        for fl in r['fields']:
            t = (fl.get('wtype') or '') + ' ' + fl.get('type', '')
            if re.search(r'\bReceiver\d?\b|\bDownstreamReceiver\b|\bOutputReceiver\b', t) and not re.search(r'connect_result|operation|callback|manual_lifetime|_op\b', t):
                out[r['qname']].add(fl['name'])
    return out


def owner_of(F, rfields, fn, path):
    """which family record owns the receiver object named by `path` inside function fn"""
    comps = [c for c in path.split('.') if c]
    if not comps: return None
    fld = comps[-1].replace('()', '')
    rec = fn.get('record') or ''
    if fn.get('lambda'):
        rec = (fn.get('parent_fn') or '').split('@')[0].rsplit('::', 1)[0]
    cands = [q for q, fs in rfields.items() if fld in fs]
    if comps[0] == 'this' and len(comps) == 2 and rec in cands: return rec
    if not cands:
        # getter: receiver reached through a method (get_receiver()) -> the record defining the getter's target is unknown; fall back to unique op record
        return None
    if len(cands) == 1: return cands[0]
    # several operation records in the family own such a field: the lexically nearest one
    def common(a, b):
        n = 0
        for x, y in zip(a.split('::'), b.split('::')):
            if x != y: break
            n += 1
        return n
    cands.sort(key=lambda q: -common(q, rec))
    if len(cands) > 1 and common(cands[0], rec) == common(cands[1], rec): return None
    return cands[0]


def family_roots(F, fam, gcache):
    fs = [f for f in F.by_family.get(fam, []) if f.get('blocks') and not f.get('ctor') and not f.get('dtor')]
    called = collections.Counter()
    supers = {}
    for f in fs:
        if f.get('lambda'): continue
        try:
            S = Super(F, f, [fam], graph_cache=gcache)
        except TooBig:
            continue
        supers[id(f)] = S
        for q, n in S.inlined.items(): called[q] += n
    roots = [f for f in fs if not f.get('lambda') and called[f['qname']] == 0 and id(f) in supers]
    return roots, supers


def _blocked_edges(S, asg):
    blocked = set()
    conds = S.constexpr_conds()
    for k, v in asg.items():
        for (n, t, f_) in conds.get(k, []):
            dead = f_ if v else t
            if dead is not None: blocked.add((n, dead))
    return blocked


def check_family(run, F, fam, regs, gcache, want_prop):
    rfields = receiver_fields(F, fam)
    roots, supers = family_roots(F, fam, gcache)
    for r, fl in regs:
        M = fl['name']; R = r['qname']
        found_terminal = False
        info = []     # per root: (S, relevant terminals, construct nodes, destruct nodes)
        keys = set()
        for root in roots:
            S = supers[id(root)]
            holders = [q for q in {x['qname'] for x in F.recs if x['_family'] == fam and any(f2['name'] == M for f2 in x['fields'])}]
            def mine(n):
                return _nearest(holders, S.fn[n]) == R
            cons = set(n for n in S.nodes(lambda e: e.get('k') == 'call' and e['callee'].get('name') in CONSTRUCT and _targets(e, M)) if mine(n))
            des = set(n for n in S.nodes(lambda e: e.get('k') == 'call' and e['callee'].get('name') in DESTRUCT and _targets(e, M)) if mine(n))
            rel = []
            for n, ch, p in S.terminals():
                o = owner_of(F, rfields, S.fn[n], p)
                if o == R or (o is None and len(regs) == 1 and len(rfields) <= 1): rel.append((n, ch, p))
            if not rel and not cons: continue
            info.append((root, S, rel, cons, des))
            if rel or cons: keys |= set(S.constexpr_conds())
        keys = sorted(keys)[:7]
        verdict = {}     # (root qname, terminal fn, line, ch) -> (S, n, bad)
        for vals in itertools.product([True, False], repeat=len(keys)):
            asg = dict(zip(keys, vals))
            be = {id(S): _blocked_edges(S, asg) for _, S, _, _, _ in info}
            reach0 = {id(S): S.reach(S.entry, blocked_edges=be[id(S)]) for _, S, _, _, _ in info}
            constructing = [root for root, S, rel, cons, des in info if any(c in reach0[id(S)] for c in cons)]
            if not constructing: continue      # under this configuration the callback is never registered
            for root, S, rel, cons, des in info:
                is_con = any(c in reach0[id(S)] for c in cons)
                for n, ch, p in rel:
                    if n not in reach0[id(S)]: continue
                    k = (root['qname'], S.fn[n]['qname'], S.line(n), ch, p)
                    bad = None
                    if is_con:
                        # the root that registers: dead at entry; from each construct a destruct must precede the completion
                        for c in cons:
                            if c in reach0[id(S)] and n in S.reach([m for m, lab in S.succ[c] if lab != 'exc'], blocked=des, blocked_edges=be[id(S)]):
                                bad = 'registered at %s and not deregistered before the completion' % S.where(c); break
                    else:
                        if n in S.reach(S.entry, blocked=des, blocked_edges=be[id(S)]):
                            bad = 'no deregistration on a path from entry point %s' % root['name']
                    cur = verdict.get(k)
                    if cur is None or (bad and not cur[2]): verdict[k] = (S, n, bad, asg if bad else None)
        for (rq, fq, ln, ch, p), (S, n, bad, asg) in verdict.items():
            found_terminal = True
            run.inst('%s %s' % (S.where(n), rq), '%s deregistered before %s(%s)' % (M, ch, p), key=(R, M, rq, fq, ch))
            if bad:
                des = set(n2 for n2 in S.nodes(lambda e: e.get('k') == 'call' and e['callee'].get('name') in DESTRUCT and _targets(e, M)))
                run.violation(fq, 'registered-at-completion:%s' % M, S.where(n),
                              'the receiver is completed (%s) while stop callback %s::%s can still be registered on its token: %s%s' % (
                                  ch, R.replace('unifex::', ''), M, bad, (' [if constexpr: %s]' % {k: v for k, v in asg.items() if k in S.constexpr_conds()}) if asg else ''),
                              path=['entry point: %s' % rq] + S.path_to(n, blocked=des), prop=want_prop)
        if not found_terminal:
            run.inst('%s:%s %s' % (r['file'], fl['line'], R), 'registration member %s: no completion of its receiver found in the family (not decided)' % M, nontrivial=False, key=(R, M, 'none'))


def _nearest(holders, fn):
    here = fn.get('record') or (fn.get('parent_fn') or '').split('@')[0].rsplit('::', 1)[0]
    def common(q):
        n = 0
        for x, y in zip(q.split('::'), here.split('::')):
            if x != y: break
            n += 1
        return n
    if not holders: return None
    hs = sorted(holders, key=lambda q: -common(q))
    if len(hs) > 1 and common(hs[0]) == common(hs[1]): return None
    return hs[0]


def _targets(e, M):
    ce = e['callee']; nm = ce.get('name')
    if nm in ('activate_union_member', 'deactivate_union_member'):
        return bool(e.get('args')) and last_field(e['args'][0].get('p', '')) == M
    return last_field(ce.get('base', '')) == M


def _mk(prop, floor):
    @rule('R-DEREG-' + prop, [prop], floor=floor, configs=(['d20', 'r20', 'v20'] if prop == 'C10' else None))
    def r(run, F, prop=prop):
        regs = collections.defaultdict(list)
        for rec, fl in registrations(F):
            if prop_of(rec['qname']) == prop: regs[rec['_family']].append((rec, fl))
        gcache = {}
        for fam, lst in sorted(regs.items()):
            check_family(run, F, fam, lst, gcache, prop)
    r.__doc__ = 'every stop callback an operation registered on its receiver\'s token is destructed on every interprocedural path from each entry point of the family to a completion of that receiver (inlined supergraph, per consistent `if constexpr` assignment)'
    from .. import core
    core.RULES['R-DEREG-' + prop]['doc'] = r.__doc__
    return r


for _p, _fl in (('C04', 8), ('C07', 2), ('C14', 3), ('C19', 1), ('C13', 1), ('C18', 1), ('C10', 1)):
    _mk(_p, _fl)
