"""R-WRITERS — who may write the protocol state of an execution context (C14, C06, C07).

For the scalar protocol fields of the I/O contexts and thread contexts (flags such as
remoteQueueReadSubmitted_, timersAreDirty_, stop flags, queue heads, counters) the set of functions
that assign them was read off the pinned tree and frozen (tables/writers.json).  A function that
newly writes such a field (e.g. run() resetting a flag that mirrors an outstanding kernel request) or a
listed writer that no longer does is a violation: these fields are each other's invariants, not
per-call scratch state."""
import collections, json, os, re, sys

from ..core import rule, site, Broken, VERIF
from ..facts import events, last_field
from .atomics import norm_fn

TABLE = os.path.join(VERIF, 'tables', 'writers.json')
RECORDS = [
    ('C14', r'^unifex::linuxos::io_uring_context$'), ('C14', r'^unifex::linuxos::io_epoll_context$'),
    ('C07', r'^unifex::timed_single_thread_context$'), ('C06', r'^unifex::_manual_event_loop::context$'),
    ('C06', r'^unifex::_static_thread_pool::context::thread_state$'), ('C06', r'^unifex::_new_thread::context$'),
    ('C06', r'^unifex::thread_unsafe_event_loop$'), ('C06', r'^unifex::_trampoline::scheduler::trampoline_state$'),
]
SCALAR = re.compile(r'^(const )?(bool|int|unsigned|std::uint\d+_t|uint\d+_t|std::size_t|size_t|long)\b|\*$|time_point')


def survey(F):
    rows = {}
    for prop, rx in RECORDS:
        for r in F.recs:
            if not re.search(rx, r['qname']): continue
            fields = {fl['name'] for fl in r['fields'] if not fl.get('static') and SCALAR.search(fl.get('type', ''))}
            for f in F.funcs:
                if not f.get('blocks'): continue
                if not (f.get('record') == r['qname'] or (f.get('parent_fn') or '').startswith(r['qname'] + '::')): continue
                if f.get('ctor') or f.get('dtor'): continue
                for b, i, e in events(f):
                    fld = None
                    if e['k'] in ('assign', 'incdec') and e['lhs'].startswith('this.') and len(e['lhs'].split('.')) == 2: fld = e['lhs'][5:]
                    if fld in fields:
                        owner = f if not f.get('lambda') else f
                        key = (r['qname'], fld)
                        val = '?'
                        if e['k'] == 'assign':
                            pv = (e.get('rhs') or {}).get('p') if (e.get('rhs') or {}).get('op') == 'path' else None
                            if isinstance(pv, str) and pv.startswith('#'): val = pv
                        else: val = e.get('o', '?')
                        rows.setdefault(key, dict(prop=prop, writers=set()))['writers'].add('%s = %s' % (norm_fn(f['qname'] if not f.get('lambda') else (f.get('parent_fn') or '').split('@')[0]), val))
    return rows


def load_table():
    with open(TABLE) as fh: return json.load(fh)['rows']


def _mk(prop):
    rid = 'R-WRITERS-' + prop
    @rule(rid, [prop], floor=1)
    def r(run, F, prop=prop):
        tab = [x for x in load_table() if x['prop'] == prop]
        cur = survey(F)
        for x in tab:
            key = (x['record'], x['field'])
            have = cur.get(key, {}).get('writers', set())
            run.inst('%s.%s' % (x['record'], x['field']), 'written only by %s' % x['writers'], key=key)
            if not have and not any(r['qname'] == x['record'] for r in F.recs):
                run.broke('record %s of the writers table no longer exists' % x['record']); continue
            for w in sorted(have - set(x['writers'])):
                f = next((g for g in F.funcs if norm_fn(g['qname']) == w.split(' = ')[0]), None)
                run.violation(w, 'new-writer:' + x['field'], '%s:%s' % ((f or {}).get('file', '?'), (f or {}).get('line', '?')),
                              '%s is a new write to %s::%s (function = value written), so far written only as %s: this field mirrors state shared with other parts of the context (queue markers, outstanding kernel requests), overwriting it elsewhere desynchronises them' % (w.replace('unifex::', ''), x['record'].replace('unifex::', ''), x['field'], [v.replace('unifex::', '') for v in x['writers']]))
            for w in sorted(set(x['writers']) - have):
                run.violation(w, 'writer-gone:' + x['field'], x['record'], '%s no longer writes %s::%s' % (w.replace('unifex::', ''), x['record'].replace('unifex::', ''), x['field']))
    r.__doc__ = 'the scalar protocol fields of the execution contexts (flags mirroring outstanding kernel requests or queue markers, stop flags, queue heads, timer bookkeeping) are written by exactly the frozen set of member functions (tables/writers.json): no new writer, no writer dropped'
    from .. import core
    core.RULES[rid]['doc'] = r.__doc__
    return r


try:
    for _p in sorted({x['prop'] for x in load_table()}): _mk(_p)
except FileNotFoundError:
    pass


def freeze():
    from .. import extract
    from ..facts import Facts
    files, _ = extract.extract(['d17'])
    rows = survey(Facts(files['d17'], 'd17'))
    out = [dict(prop=v['prop'], record=k[0], field=k[1], writers=sorted(v['writers'])) for k, v in sorted(rows.items())]
    with open(TABLE, 'w') as fh: json.dump(dict(_doc='who-may-write table; see usa/rules/writers.py', rows=out), fh, indent=0)
    for x in out: print(x['prop'], x['record'].replace('unifex::', ''), x['field'], [w.split('::')[-1] for w in x['writers']])


if __name__ == '__main__':
    if '--freeze' in sys.argv: freeze()
