"""R-MLT-* — manual-lifetime members (child operation states, stored results, callbacks): C02."""
import collections, json, re

from ..core import rule, site, Broken
from ..facts import events, last_field
from ..inline import Super, TooBig
from .c12_queries import receiver_records

CONS = {'construct', 'construct_with', 'emplace', 'activate_union_member', 'activate_union_member_with'}
DES = {'destruct', 'deactivate_union_member'}
ML_TYPE = re.compile(r'\bmanual_lifetime\b|\bmanual_lifetime_union\b')


def target_member(e):
    nm = e['callee'].get('name')
    if nm in ('activate_union_member', 'activate_union_member_with', 'deactivate_union_member'):
        return last_field(e['args'][0].get('p', '')) if e.get('args') else None
    return last_field(e['callee'].get('base', ''))


def _here(fn):
    return fn.get('record') or (fn.get('parent_fn') or '').split('@')[0].rsplit('::', 1)[0]


def _common(a, b):
    n = 0
    for x, y in zip(a.split('::'), b.split('::')):
        if x != y: break
        n += 1
    return n


def nearest(holders, fn):
    here = _here(fn)
    hs = sorted(holders, key=lambda q: -_common(q, here))
    if not hs: return None
    if len(hs) > 1 and _common(hs[0], here) == _common(hs[1], here): return None
    return hs[0]


def ml_fields(F):
    """(record qname, field name) -> field dict, for manually managed members"""
    out = {}
    for r in F.recs:
        for fl in r['fields']:
            if fl.get('static'): continue
            t = (fl.get('wtype') or '') + ' ' + fl.get('type', '')
            if ML_TYPE.search(t) and 'variant<' not in t and 'tuple<' not in t:
                out[(r['qname'], fl['name'])] = (r, fl)
    return out


# members that are deliberately never destructed, with the reason (one row per member)
PAIR_EXEMPT = {}


@rule('R-MLT-PAIR', ['C02'], floor=40)
def mlt_pair(run, F):
    """every manually managed member (manual_lifetime / manual_lifetime_union field) that some function constructs is destructed by some function of the same class family: a construct-only member is an object that is never destroyed"""
    fields = ml_fields(F)
    by_name = collections.defaultdict(list)
    for (rq, m) in fields: by_name[m].append(rq)
    cons = collections.defaultdict(list); des = collections.defaultdict(list)
    fam_of = {rq: r['_family'] for (rq, m), (r, fl) in fields.items()}
    for f in F.funcs:
        for b, i, e in events(f):
            if e['k'] != 'call': continue
            nm = e['callee'].get('name')
            if nm not in CONS and nm not in DES: continue
            m = target_member(e)
            if not m or m not in by_name: continue
            holders = [h for h in by_name[m] if fam_of[h] == f['_family']]
            if not holders: continue
            owner = nearest(holders, f) if len(holders) > 1 else holders[0]
            tgt = [owner] if owner else holders
            for o in tgt:
                (cons if nm in CONS else des)[(o, m)].append((f, e['line']))
    for (rq, m), (r, fl) in sorted(fields.items()):
        c, d = cons.get((rq, m), []), des.get((rq, m), [])
        if not c and not d: continue
        run.inst('%s:%s %s' % (r['file'], fl['line'], rq), '%s: %d construct site(s), %d destruct site(s)' % (m, len(c), len(d)), key=(rq, m))
        if c and not d and (rq, m) not in PAIR_EXEMPT:
            f0, ln = c[0]
            run.violation(rq, 'never-destructed:' + m, '%s:%s' % (f0['file'], ln),
                          'member %s (%s) is constructed here but no function ever destructs it: the object it holds is never destroyed' % (m, (fl.get('wtype') or fl.get('type', ''))[:60].replace('\n', ' ')))


def host_relation(F):
    """(family, member) -> receiver classes connected into the operation the member hosts"""
    recv = {r['qname']: r for r in receiver_records(F)}
    def short(q):
        p = q.split('::')
        return p[-2] if p[-1] == 'type' and len(p) > 1 else p[-1]
    def recv_of_type(t, fam):
        best = None
        for q, r in recv.items():
            if r['_family'] != fam: continue
            if re.search(r'\b' + re.escape(short(q)) + r'\b', t):
                if best is None or len(q) > len(best): best = q
        return best
    lam_by_parent = collections.defaultdict(list)
    for g in F.funcs:
        if g.get('lambda'): lam_by_parent[(g.get('parent_fn') or '').split('@')[0]].append(g)
    hosts = collections.defaultdict(set)
    for f in F.funcs:
        for b, i, e in events(f):
            if e['k'] != 'call' or e['callee'].get('name') not in CONS: continue
            m = target_member(e)
            if not m: continue
            txt = json.dumps(e.get('args'))
            for g in lam_by_parent.get(f['qname'], []):
                if ('<lambda@%d>' % g['line']) not in txt: continue
                for _, _, e2 in events(g):
                    if e2['k'] in ('construct', 'initlist'):
                        x = recv_of_type(e2.get('type', ''), f['_family'])
                        if x: hosts[(f['_family'], m)].add(x)
    return hosts, recv


@rule('R-MLT-HOST', ['C02'], floor=25)
def mlt_host(run, F):
    """a child receiver's completion handlers destroy their own host slot (the member holding the operation that receiver was connected into), never the slot hosting a sibling receiver's operation: destroying the wrong slot double-destroys one child and leaks the other"""
    hosts, recv = host_relation(F)
    slot_of = collections.defaultdict(set)      # receiver class -> its host members
    for (fam, m), xs in hosts.items():
        for x in xs: slot_of[x].add(m)
    gcache = {}
    for x, slots in sorted(slot_of.items()):
        r = recv[x]; fam = r['_family']
        others = {m: ys for (fm, m), ys in hosts.items() if fm == fam and m not in slots}
        for h in F.by_record.get(x, []):
            if h['name'] not in ('set_value', 'set_error', 'set_done') or not h.get('blocks') or h.get('lambda'): continue
            try:
                S = Super(F, h, [fam], graph_cache=gcache)
            except TooBig:
                run.inst(site(h), 'handler too large to inline (not decided)', nontrivial=False, key=(x, h['name'], 'big')); continue
            destructed = {}
            for n, e in enumerate(S.ev):
                if e.get('k') == 'call' and e['callee'].get('name') in DES:
                    m = target_member(e)
                    if m: destructed.setdefault(m, n)
            run.inst(site(h), 'destroys own slot %s; other slots %s untouched' % (sorted(slots), sorted(others)), key=(x, h['name'], len(h.get('params', []))))
            for m, n in destructed.items():
                if m in others and not (slots & set(destructed)):
                    run.violation(h['qname'], 'wrong-slot:' + m, S.where(n),
                                  'handler of %s destroys %s, which hosts the operation connected to %s, and never destroys its own slot %s: one child operation is destroyed twice and the other never' % (
                                      x.replace('unifex::', ''), m, ', '.join(sorted(y.replace('unifex::', '') for y in others[m])), '/'.join(sorted(slots))),
                                  path=S.path_to(n))


INIT_EXEMPT = {}


@rule('R-INIT-DISCR', ['C02'], floor=8)
def init_discr(run, F):
    """pointer/bool/integer members that some function of the class family branches on (queue links, discriminators, 'is constructed' flags) are initialised at construction — by a default member initialiser, by every constructor, or by a delegating constructor; otherwise a reader that runs before the first write (e.g. a stop callback executing inline during registration) acts on an indeterminate value"""
    from ..facts import expr_paths
    reads = collections.defaultdict(set)
    for f in F.funcs:
        for b in f.get('blocks', []):
            t = b.get('term')
            if t and t.get('cond') is not None and not (t.get('macro') or '').startswith(('UNIFEX_ASSERT', 'assert')):
                for p in expr_paths(t['cond']):
                    reads[(f['_family'], last_field(p))].add((f['file'], t.get('line'), f['qname']))
    for r in F.recs:
        if r.get('kind') == 'union': continue
        ctors = [f for f in F.by_record.get(r['qname'], []) if f.get('ctor') and f['file'] == r['file'] and r['line'] <= f['line'] <= r['endline']]
        if not ctors: continue     # aggregates / implicitly constructed: value-initialised by their users or not at all (not decided here)
        inits = []
        for c in ctors:
            s = set(); delegating = False
            for b, i, e in events(c):
                if e['k'] == 'init':
                    if e.get('field'): s.add(e['field'])
                    elif e.get('base') and e['base'].split('<')[0].split('::')[-1] in (r['qname'].split('::')[-1], 'type'): delegating = True
                if e['k'] == 'assign' and e['lhs'].split('.')[0] == 'this' and len(e['lhs'].split('.')) == 2: s.add(e['lhs'].split('.')[1])
            # move/copy constructors taking the same class also count when they initialise the field
            inits.append(None if delegating else s)
        for fl in r['fields']:
            if fl.get('static') or fl.get('has_init') or fl.get('union'): continue
            t = fl.get('type', '')
            if not (t.endswith('*') or t in ('bool', 'int', 'char', 'unsigned int', 'unsigned char')): continue
            rd = reads.get((r['_family'], fl['name']))
            if not rd: continue
            run.inst('%s:%s %s' % (r['file'], fl['line'], r['qname']), 'discriminator %s initialised at construction' % fl['name'], key=(r['qname'], fl['name']))
            if all(s is None or fl['name'] in s for s in inits): continue
            if (r['qname'], fl['name']) in INIT_EXEMPT: continue
            where = sorted(rd)[0]
            run.violation(r['qname'], 'uninitialised:' + fl['name'], '%s:%s' % (r['file'], fl['line']),
                          'member %s (%s) has no initialiser (no default member initialiser, not set by every constructor) but %s branches on it at %s:%s: a reader that runs before the first assignment sees an indeterminate value' % (
                              fl['name'], t, where[2], where[0], where[1]))


# ---------------------------------------------------------------------------------------------
# R-UAC-RELEASE: after giving up the last-owner election, the operation state is not touched

UAC_EXEMPT = {
    'unifex::_detach_on_cancel::operation_state::detached_state::request_stop':
        'the stop callback took exclusive ownership of the parent operation with the preceding CAS; this decrement only arbitrates who frees the detached state',
}


@rule('R-UAC-RELEASE', ['C02'], floor=8)
def uac_release(run, F):
    """a party that drops its reference in a last-owner election (`fetch_sub(n) == n`) and is NOT the last owner touches no member of the operation afterwards (on the losing branch, through the end of the entry point, callees inlined): the winner may complete the receiver and have the operation destroyed at any moment"""
    from .elect import rmw_tests
    from .dereg import family_roots
    from ..facts import accesses
    gcache = {}
    fams = {f['_family'] for f in F.funcs if any(e['k'] == 'call' and e['callee'].get('name') == 'fetch_sub' for _, _, e in events(f))}
    for fam in sorted(fams):
        roots, supers = family_roots(F, fam, gcache)
        for root in roots:
            S = supers[id(root)]
            for n, e in enumerate(S.ev):
                if e.get('k') != 'term' or e.get('cond') is None: continue
                f = S.fn[n]; G = S.graph(f)
                for cn, ce, tn, op, k in rmw_tests(f, G):
                    if tn != S.gn[n] or ce['callee']['name'] != 'fetch_sub' or op not in ('==', '!='): continue
                    from .elect import _lit
                    amt = _lit(ce['args'][0]) if ce.get('args') else None
                    if amt is None or k != amt: continue
                    win_label = (op == '==')
                    lose = [m for m, lab in S.succ.get(n, []) if lab is (not win_label)]
                    if not lose: continue
                    member = last_field(ce['callee'].get('base', ''))
                    run.inst('%s %s' % (S.where(n), root['qname']), 'after losing the election on %s nothing of the operation is touched' % member, key=(root['qname'], f['qname'], member))
                    if f['qname'] in UAC_EXEMPT: continue
                    for x in sorted(S.reach(lose[0])):
                        ex = S.ev[x]
                        if (ex.get('macro') or '').startswith(('UNIFEX_ASSERT', 'assert')): continue
                        hit = None
                        for p, rw in accesses(ex):
                            comps = [c for c in p.split('.') if c]
                            if p.startswith(('#', '<', '&')) or comps[-1].endswith('()'): continue
                            named = [c for c in comps if not c.endswith('()')]
                            if comps[0] == 'this' and len(named) >= 2 or (len(named) >= 2 and comps[0] != 'this'):
                                hit = p; break
                        if hit:
                            run.violation(S.fn[x]['qname'], 'touch-after-release:' + last_field(hit), S.where(x),
                                          '%s is accessed after this party dropped its reference on %s without being the last owner (election at %s): the last owner may already have completed the receiver and destroyed the operation' % (hit, member, S.where(n)),
                                          path=['entry point: %s' % root['qname'], 'election: %s' % S.where(n), 'access: %s' % S.where(x)])
                            break


# ---------------------------------------------------------------------------------------------
# R-MLT-FLAG: a bool member that tells the destructor whether a manually managed slot is alive

def flag_pairs(F):
    """[(record, flag field, slot member, polarity)] : the destructor of `record` destructs `slot` iff flag == polarity"""
    from ..facts import Graph
    out = []
    for f in F.funcs:
        if not f.get('dtor') or not f.get('blocks') or not f.get('record'): continue
        rec = F.rec_by_q.get(f['record'], [None])[0]
        if rec is None: continue
        bools = {fl['name'] for fl in rec['fields'] if fl.get('type') in ('bool', 'const bool')}
        G = Graph(f)
        for n, e in G.ev.items():
            if e.get('k') != 'call' or e['callee'].get('name') not in DES: continue
            m = target_member(e)
            for t, te in G.ev.items():
                if te.get('k') != 'term' or te.get('cond') is None: continue
                c = te['cond']; pol = True
                while isinstance(c, dict) and c.get('op') == 'un' and c.get('o') == '!': c = c['e']; pol = not pol
                if not (isinstance(c, dict) and c.get('op') == 'path' and c['p'].startswith('this.') and c['p'][5:] in bools): continue
                for s, lab in G.succ.get(t, []):
                    if lab in (True, False) and n not in G.reach(G.entry, blocked_edges={(t, s)}):
                        out.append((f['record'], c['p'][5:], m, (lab if pol else (not lab))))
    return sorted(set(out))


def _flag_value(F, rec, flag):
    r = F.rec_by_q.get(rec, [None])[0]
    for fl in (r or {}).get('fields', []):
        if fl['name'] == flag and fl.get('has_init'):
            return {'#true': True, '#false': False}.get(fl.get('init'))
    return None


@rule('R-MLT-FLAG', ['C02'], floor=6)
def mlt_flag(run, F):
    """for every operation whose destructor destroys a manually managed slot only when a bool member says so (`if (started_) inner_.destruct()`), the flag agrees with the slot's actual state at every completion of the receiver and after construction — on every path including exceptional ones (path-sensitive typestate over the inlined supergraph, states handed from start() to the child receivers' handlers); no slot is constructed while alive or destructed while dead"""
    from .dereg import family_roots
    gcache = {}
    pairs = flag_pairs(F)
    if len(pairs) < 5: raise Broken('only %d flag-discriminated slots found' % len(pairs))
    for rec, flag, slot, pol in pairs:
        fam = F.rec_by_q[rec][0]['_family']
        roots, supers = family_roots(F, fam, gcache)
        init_flag = _flag_value(F, rec, flag)
        # initial states: run the constructors
        ctors = [f for f in F.by_record.get(rec, []) if f.get('ctor') and f.get('blocks')]
        states0 = set()
        for c in ctors:
            try: S = Super(F, c, [fam], graph_cache=gcache, maxdepth=3)
            except TooBig: continue
            ex, _, _ = _flag_run(S, {(False, init_flag)}, flag, slot, None, ctor=True)
            states0 |= ex
        if not ctors: states0 = {(False, init_flag)}
        run.inst('%s %s' % (F.rec_by_q[rec][0]['file'], rec), 'flag %s <-> slot %s (destructor destroys when flag == %s)' % (flag, slot, pol), key=(rec, flag, slot))
        for live, d in states0:
            if d is not None and live != (d == pol):
                run.violation(rec, 'flag-mismatch-unstarted:%s/%s' % (flag, slot), '%s:%s' % (F.rec_by_q[rec][0]['file'], F.rec_by_q[rec][0]['line']),
                              'after construction %s is %s but %s=%s: destroying a never-started operation %s' % (slot, 'alive' if live else 'not alive', flag, d, 'leaks the slot' if live else 'destroys a dead slot'))
        # fixpoint over roots: entry states of handlers = states observed at child starts
        starts = [r for r in roots if r['name'] == 'start' and r.get('record') == rec] or [r for r in roots if r['name'] == 'start']
        hosts, _recv = host_relation(F)
        fam_hosts = {m: xs for (fm, m), xs in hosts.items() if fm == fam}
        handoff = collections.defaultdict(set); reported = set()      # receiver class -> states at the start of its operation
        entry_states = {id(r): set(states0) for r in starts}
        undecided = False
        for _ in range(6):
            changed = False
            for r in roots:
                if r in starts: ins = entry_states.get(id(r), set())
                elif r.get('record') in handoff: ins = set(handoff[r['record']])
                else: continue
                if not ins: continue
                S = supers[id(r)]
                ex, hs, viol = _flag_run(S, ins, flag, slot, pol)
                for (node, st) in hs:
                    m = _started_member(S, node, fam_hosts)
                    if m is None: undecided = True; continue
                    for x in fam_hosts[m]:
                        if st not in handoff[x]: handoff[x].add(st); changed = True
                for (node, kind, st) in viol:
                    key = (S.fn[node]['qname'], kind)
                    if key in reported: continue
                    reported.add(key)
                    live, d = st
                    if kind == 'mismatch':
                        msg = 'the receiver is completed here with %s %s while %s=%s: the destructor that runs next %s' % (
                            slot, 'still alive' if live else 'already destroyed', flag, d, 'never destroys it (leak)' if live else 'destroys it a second time')
                    elif kind == 'double-construct': msg = '%s is constructed while it is already alive on this path' % slot
                    else: msg = '%s is destructed while it is not alive on this path' % slot
                    run.violation(S.fn[node]['qname'], 'flag-%s:%s/%s' % (kind, flag, slot), S.where(node), msg, path=['entry point: %s' % r['qname']] + S.path_to(node)[-8:])
            if not changed: break
        if undecided:
            run.inst('%s %s' % (F.rec_by_q[rec][0]['file'], rec), 'a child start could not be attributed to a slot: handlers reached only through it are not decided', nontrivial=False, key=(rec, flag, slot, 'undecided'))


def _started_member(S, node, fam_hosts):
    """which slot does `unifex::start(x)` at `node` start?  (path component naming a host slot, or a local alias bound to one)"""
    e = S.ev[node]
    p = (e['args'][0].get('p', '') if e.get('args') else '')
    for c in p.split('.'):
        c = c.replace('()', '')
        if c in fam_hosts: return c
    head = p.split('.')[0]
    f = S.fn[node]
    # alias: auto& x = <slot>.construct_with(...) / activate_union_member_with(<slot>, ...)
    eid2 = {}
    for i in range(len(S.ev)):
        if S.fn[i] is f and S.ev[i].get('k') == 'call' and S.ev[i]['callee'].get('name') in CONS:
            eid2[S.ev[i].get('eid')] = target_member(S.ev[i])
    for i in range(len(S.ev)):
        if S.fn[i] is f and S.ev[i].get('k') == 'decl':
            for v in S.ev[i]['vars']:
                if v['var'] == head:
                    init = v.get('init') or {}
                    m = eid2.get(init.get('eid'))
                    if m in fam_hosts: return m
    return None


def _flag_run(S, entry_states, flag, slot, pol, ctor=False):
    """path-sensitive propagation of (slot alive?, flag value) -> (exit states, hand-off states, violations)"""
    IN = collections.defaultdict(set)
    IN[S.entry] |= set(entry_states)
    work = [S.entry]; viol = []; handoffs = set(); exits = set()
    exit_nodes = set(S.exits)
    terms = {n for n, ch, p in S.terminals()}
    steps = 0
    while work:
        steps += 1
        if steps > 400000: break
        n = work.pop()
        e = S.ev[n]
        for st in list(IN[n]):
            live, d = st
            k = e.get('k')
            before = st
            if k == 'call':
                nm = e['callee'].get('name')
                if nm in CONS and target_member(e) == slot:
                    # callee lambdas (factory) are inlined before the 'return' node; the construct event itself marks success
                    if live and not ctor: viol.append((n, 'double-construct', st))
                    live = True
                elif nm in DES and target_member(e) == slot:
                    if not live: viol.append((n, 'destruct-dead', st))
                    live = False
                elif e['callee'].get('qname') == 'unifex::start':
                    handoffs.add((n, (live, d)))
                if n in terms and pol is not None and d is not None and live != (d == pol):
                    viol.append((n, 'mismatch', st))
            elif k == 'assign' and last_field(e['lhs']) == flag and len(e['lhs'].split('.')) <= 2:
                v = (e.get('rhs') or {}).get('p')
                d = True if v == '#true' else False if v == '#false' else None
            elif k == 'init' and e.get('field') == flag:
                v = (e.get('v') or {}).get('p')
                d = True if v == '#true' else False if v == '#false' else d
            after = (live, d)
            if n in exit_nodes: exits.add(after)
            for m, lab in S.succ.get(n, []):
                nxt = before if lab == 'exc' else after
                if k == 'term' and lab in (True, False) and e.get('cond') is not None:
                    c = e['cond']; p2 = True
                    while isinstance(c, dict) and c.get('op') == 'un' and c.get('o') == '!': c = c['e']; p2 = not p2
                    if isinstance(c, dict) and c.get('op') == 'path' and last_field(c['p']) == flag and nxt[1] is not None:
                        if (nxt[1] == p2) != lab: continue        # infeasible branch
                if nxt not in IN[m]:
                    IN[m].add(nxt); work.append(m)
    return exits, handoffs, viol


def _paths(a):
    from ..facts import expr_paths
    return expr_paths(a)


@rule('R-UAC-REFPARAM', ['C02', 'C13', 'C05', 'C18'], floor=15)
def uac_refparam(run, F):
    """a completion handler that destroys its own host slot (the child operation that is calling it) does not use its reference parameters afterwards: values and errors passed by reference may live inside the operation state that was just destroyed, so they must be taken by value or consumed before the destruct"""
    from ..facts import accesses
    hosts, recv = host_relation(F)
    slot_of = collections.defaultdict(set)
    for (fam, m), xs in hosts.items():
        for x in xs: slot_of[x].add(m)
    gcache = {}
    for x, slots in sorted(slot_of.items()):
        fam = recv[x]['_family']
        for h in F.by_record.get(x, []):
            if h['name'] not in ('set_value', 'set_error', 'set_done') or not h.get('blocks') or h.get('lambda'): continue
            refparams = {p['name'] for p in h.get('params', []) if p['name'] and '&' in p['type']}
            try: S = Super(F, h, [fam], graph_cache=gcache)
            except TooBig: continue
            dnodes = [n for n, e in enumerate(S.ev) if e.get('k') == 'call' and e['callee'].get('name') in DES and target_member(e) in slots]
            run.inst(site(h), 'reference parameters %s not used after destroying own slot %s' % (sorted(refparams), sorted(slots)), nontrivial=bool(refparams and dnodes), key=(x, h['name'], len(h.get('params', []))))
            if not dnodes: continue
            # helper lambdas called directly with the handler's reference parameters: their reference parameters alias them
            lam_alias = {}
            for n, e in enumerate(S.ev):
                if e.get('k') != 'call' or e['callee'].get('kind') not in ('expr', 'localvar'): continue
                for m, lab in S.succ.get(n, []):
                    if lab != 'call' or not S.fn[m].get('lambda'): continue
                    L = S.fn[m]; ps = L.get('params', [])
                    for i, a in enumerate(e.get('args', [])):
                        heads = {p.split('.')[0] for p in _paths(a)}
                        if heads & refparams:
                            # a pack argument binds to the (single) pack parameter
                            cand = ps[min(i, len(ps) - 1)] if ps else None
                            if cand and cand['name'] and '&' in cand['type']: lam_alias.setdefault(id(L), set()).add(cand['name'])
            if not refparams: continue
            for d in dnodes:
                after = S.reach([m for m, lab in S.succ.get(d, []) if lab != 'exc'])
                for n in sorted(after):
                    fn_n = S.fn[n]
                    if fn_n is not h and not fn_n.get('lambda'): continue      # parameter names are only meaningful in the handler and its lambdas
                    e = S.ev[n]
                    names = set(refparams)
                    if fn_n.get('lambda'):
                        names -= {p['name'] for p in fn_n.get('params', [])}      # shadowed by the lambda's own parameters
                    if fn_n.get('lambda') and id(fn_n) in lam_alias:
                        # reference parameters of a helper lambda that were bound to the handler's own reference parameters
                        names |= lam_alias[id(fn_n)]
                    used = [p for p, rw in accesses(e) if p.split('.')[0] in names]
                    if used:
                        run.violation(h['qname'], 'refparam-after-destruct:' + used[0].split('.')[0], S.where(n),
                                      'parameter `%s` is taken by reference and used after this handler destroyed %s at %s; if the sender passed an object stored in its own operation state (as just/just_error/single do) the reference now dangles — take it by value or consume it before the destruct' % (
                                          used[0].split('.')[0], '/'.join(sorted(slots)), S.where(d)))
                        break
                else: continue
                break
