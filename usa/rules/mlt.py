"""R-MLT-* — manual-lifetime members (child operation states, stored results, callbacks): C02."""
import collections, json, re

from ..core import rule, site, Broken
from ..facts import TERMQ, events, last_field
from ..inline import Super, TooBig
from .c12_queries import receiver_records

CONS = {'construct', 'construct_with', 'emplace', 'activate_union_member', 'activate_union_member_with'}
DES = {'destruct', 'deactivate_union_member'}
ML_TYPE = re.compile(r'\bmanual_lifetime\b|\bmanual_lifetime_union\b')


def target_member(e):
    nm = e['callee'].get('name')
    if nm in ('activate_union_member', 'activate_union_member_with', 'deactivate_union_member'):
        return last_field(e['args'][0].get('p', '')) if e.get('args') else None
    return last_field(e['callee'].get('base', ''))


def _here(fn):
    return fn.get('record') or (fn.get('parent_fn') or '').split('@')[0].rsplit('::', 1)[0]


def _common(a, b):
    n = 0
    for x, y in zip(a.split('::'), b.split('::')):
        if x != y: break
        n += 1
    return n


def nearest(holders, fn):
    here = _here(fn)
    hs = sorted(holders, key=lambda q: -_common(q, here))
    if not hs: return None
    if len(hs) > 1 and _common(hs[0], here) == _common(hs[1], here): return None
    return hs[0]


def ml_fields(F):
    """(record qname, field name) -> field dict, for manually managed members"""
    out = {}
    for r in F.recs:
        for fl in r['fields']:
            if fl.get('static'): continue
            t = (fl.get('wtype') or '') + ' ' + fl.get('type', '')
            if ML_TYPE.search(t) and 'variant<' not in t and 'tuple<' not in t:
                out[(r['qname'], fl['name'])] = (r, fl)
    return out


# members that are deliberately never destructed, with the reason (one row per member)
PAIR_EXEMPT = {}


@rule('R-MLT-PAIR', ['C02'], floor=40)
def mlt_pair(run, F):
    """every manually managed member (manual_lifetime / manual_lifetime_union field) that some function constructs is destructed by some function of the same class family: a construct-only member is an object that is never destroyed"""
    fields = ml_fields(F)
    by_name = collections.defaultdict(list)
    for (rq, m) in fields: by_name[m].append(rq)
    cons = collections.defaultdict(list); des = collections.defaultdict(list)
    fam_of = {rq: r['_family'] for (rq, m), (r, fl) in fields.items()}
    for f in F.funcs:
        for b, i, e in events(f):
            if e['k'] != 'call': continue
            nm = e['callee'].get('name')
            if nm not in CONS and nm not in DES: continue
            m = target_member(e)
            if not m or m not in by_name: continue
            holders = [h for h in by_name[m] if fam_of[h] == f['_family']]
            if not holders: continue
            owner = nearest(holders, f) if len(holders) > 1 else holders[0]
            tgt = [owner] if owner else holders
            for o in tgt:
                (cons if nm in CONS else des)[(o, m)].append((f, e['line']))
    for (rq, m), (r, fl) in sorted(fields.items()):
        c, d = cons.get((rq, m), []), des.get((rq, m), [])
        if not c and not d: continue
        run.inst('%s:%s %s' % (r['file'], fl['line'], rq), '%s: %d construct site(s), %d destruct site(s)' % (m, len(c), len(d)), key=(rq, m))
        if c and not d and (rq, m) not in PAIR_EXEMPT:
            f0, ln = c[0]
            run.violation(rq, 'never-destructed:' + m, '%s:%s' % (f0['file'], ln),
                          'member %s (%s) is constructed here but no function ever destructs it: the object it holds is never destroyed' % (m, (fl.get('wtype') or fl.get('type', ''))[:60].replace('\n', ' ')))


def host_relation(F):
    """(family, member) -> receiver classes connected into the operation the member hosts"""
    recv = {r['qname']: r for r in receiver_records(F)}
    def short(q):
        p = q.split('::')
        return p[-2] if p[-1] == 'type' and len(p) > 1 else p[-1]
    def recv_of_type(t, fam):
        best = None
        for q, r in recv.items():
            if r['_family'] != fam: continue
            if re.search(r'\b' + re.escape(short(q)) + r'\b', t):
                if best is None or len(q) > len(best): best = q
        return best
    lam_by_parent = collections.defaultdict(list)
    for g in F.funcs:
        if g.get('lambda'): lam_by_parent[(g.get('parent_fn') or '').split('@')[0]].append(g)
    hosts = collections.defaultdict(set)
    for f in F.funcs:
        for b, i, e in events(f):
            if e['k'] != 'call' or e['callee'].get('name') not in CONS: continue
            m = target_member(e)
            if not m: continue
            txt = json.dumps(e.get('args'))
            for g in lam_by_parent.get(f['qname'], []):
                if ('<lambda@%d>' % g['line']) not in txt: continue
                for _, _, e2 in events(g):
                    if e2['k'] in ('construct', 'initlist'):
                        x = recv_of_type(e2.get('type', ''), f['_family'])
                        if x: hosts[(f['_family'], m)].add(x)
    return hosts, recv


@rule('R-MLT-HOST', ['C02'], floor=25)
def mlt_host(run, F):
    """a child receiver's completion handlers destroy their own host slot (the member holding the operation that receiver was connected into), never the slot hosting a sibling receiver's operation: destroying the wrong slot double-destroys one child and leaks the other"""
    hosts, recv = host_relation(F)
    slot_of = collections.defaultdict(set)      # receiver class -> its host members
    for (fam, m), xs in hosts.items():
        for x in xs: slot_of[x].add(m)
    gcache = {}
    for x, slots in sorted(slot_of.items()):
        r = recv[x]; fam = r['_family']
        others = {m: ys for (fm, m), ys in hosts.items() if fm == fam and m not in slots}
        for h in F.by_record.get(x, []):
            if h['name'] not in ('set_value', 'set_error', 'set_done') or not h.get('blocks') or h.get('lambda'): continue
            try:
                S = Super(F, h, [fam], graph_cache=gcache)
            except TooBig:
                run.inst(site(h), 'handler too large to inline (not decided)', nontrivial=False, key=(x, h['name'], 'big')); continue
            destructed = {}
            for n, e in enumerate(S.ev):
                if e.get('k') == 'call' and e['callee'].get('name') in DES:
                    m = target_member(e)
                    if m: destructed.setdefault(m, n)
            run.inst(site(h), 'destroys own slot %s; other slots %s untouched' % (sorted(slots), sorted(others)), key=(x, h['name'], len(h.get('params', []))))
            for m, n in destructed.items():
                if m in others and not (slots & set(destructed)):
                    run.violation(h['qname'], 'wrong-slot:' + m, S.where(n),
                                  'handler of %s destroys %s, which hosts the operation connected to %s, and never destroys its own slot %s: one child operation is destroyed twice and the other never' % (
                                      x.replace('unifex::', ''), m, ', '.join(sorted(y.replace('unifex::', '') for y in others[m])), '/'.join(sorted(slots))),
                                  path=S.path_to(n))


INIT_EXEMPT = {}


@rule('R-INIT-DISCR', ['C02'], floor=8)
def init_discr(run, F):
    """pointer/bool/integer members that some function of the class family branches on (queue links, discriminators, 'is constructed' flags) are initialised at construction — by a default member initialiser, by every constructor, or by a delegating constructor; otherwise a reader that runs before the first write (e.g. a stop callback executing inline during registration) acts on an indeterminate value"""
    from ..facts import expr_paths
    reads = collections.defaultdict(set)
    for f in F.funcs:
        for b in f.get('blocks', []):
            t = b.get('term')
            if t and t.get('cond') is not None and not (t.get('macro') or '').startswith(('UNIFEX_ASSERT', 'assert')):
                for p in expr_paths(t['cond']):
                    reads[(f['_family'], last_field(p))].add((f['file'], t.get('line'), f['qname']))
    for r in F.recs:
        if r.get('kind') == 'union': continue
        ctors = [f for f in F.by_record.get(r['qname'], []) if f.get('ctor') and f['file'] == r['file'] and r['line'] <= f['line'] <= r['endline']]
        if not ctors: continue     # aggregates / implicitly constructed: value-initialised by their users or not at all (not decided here)
        inits = []
        for c in ctors:
            s = set(); delegating = False
            for b, i, e in events(c):
                if e['k'] == 'init':
                    if e.get('field'): s.add(e['field'])
                    elif e.get('base') and e['base'].split('<')[0].split('::')[-1] in (r['qname'].split('::')[-1], 'type'): delegating = True
                if e['k'] == 'assign' and e['lhs'].split('.')[0] == 'this' and len(e['lhs'].split('.')) == 2: s.add(e['lhs'].split('.')[1])
            # move/copy constructors taking the same class also count when they initialise the field
            inits.append(None if delegating else s)
        for fl in r['fields']:
            if fl.get('static') or fl.get('has_init') or fl.get('union'): continue
            t = fl.get('type', '')
            if not (t.endswith('*') or t in ('bool', 'int', 'char', 'unsigned int', 'unsigned char')): continue
            rd = reads.get((r['_family'], fl['name']))
            if not rd: continue
            run.inst('%s:%s %s' % (r['file'], fl['line'], r['qname']), 'discriminator %s initialised at construction' % fl['name'], key=(r['qname'], fl['name']))
            if all(s is None or fl['name'] in s for s in inits): continue
            if (r['qname'], fl['name']) in INIT_EXEMPT: continue
            where = sorted(rd)[0]
            run.violation(r['qname'], 'uninitialised:' + fl['name'], '%s:%s' % (r['file'], fl['line']),
                          'member %s (%s) has no initialiser (no default member initialiser, not set by every constructor) but %s branches on it at %s:%s: a reader that runs before the first assignment sees an indeterminate value' % (
                              fl['name'], t, where[2], where[0], where[1]))


# ---------------------------------------------------------------------------------------------
# R-UAC-RELEASE: after giving up the last-owner election, the operation state is not touched

UAC_EXEMPT = {
    'unifex::_detach_on_cancel::operation_state::detached_state::request_stop':
        'the stop callback took exclusive ownership of the parent operation with the preceding CAS; this decrement only arbitrates who frees the detached state',
}


@rule('R-UAC-RELEASE', ['C02'], floor=8)
def uac_release(run, F):
    """a party that drops its reference in a last-owner election (`fetch_sub(n) == n`) and is NOT the last owner touches no member of the operation afterwards (on the losing branch, through the end of the entry point, callees inlined): the winner may complete the receiver and have the operation destroyed at any moment"""
    from .elect import rmw_tests
    from .dereg import family_roots
    from ..facts import accesses
    gcache = {}
    fams = {f['_family'] for f in F.funcs if any(e['k'] == 'call' and e['callee'].get('name') == 'fetch_sub' for _, _, e in events(f))}
    for fam in sorted(fams):
        roots, supers = family_roots(F, fam, gcache)
        for root in roots:
            S = supers[id(root)]
            for n, e in enumerate(S.ev):
                if e.get('k') != 'term' or e.get('cond') is None: continue
                f = S.fn[n]; G = S.graph(f)
                for cn, ce, tn, op, k in rmw_tests(f, G):
                    if tn != S.gn[n] or ce['callee']['name'] != 'fetch_sub' or op not in ('==', '!='): continue
                    from .elect import _lit
                    amt = _lit(ce['args'][0]) if ce.get('args') else None
                    if amt is None or k != amt: continue
                    win_label = (op == '==')
                    lose = [m for m, lab in S.succ.get(n, []) if lab is (not win_label)]
                    if not lose: continue
                    member = last_field(ce['callee'].get('base', ''))
                    run.inst('%s %s' % (S.where(n), root['qname']), 'after losing the election on %s nothing of the operation is touched' % member, key=(root['qname'], f['qname'], member))
                    if f['qname'] in UAC_EXEMPT: continue
                    for x in sorted(S.reach(lose[0])):
                        ex = S.ev[x]
                        if (ex.get('macro') or '').startswith(('UNIFEX_ASSERT', 'assert')): continue
                        hit = None
                        for p, rw in accesses(ex):
                            comps = [c for c in p.split('.') if c]
                            if p.startswith(('#', '<', '&')) or comps[-1].endswith('()'): continue
                            named = [c for c in comps if not c.endswith('()')]
                            if comps[0] == 'this' and len(named) >= 2 or (len(named) >= 2 and comps[0] != 'this'):
                                hit = p; break
                        if hit:
                            run.violation(S.fn[x]['qname'], 'touch-after-release:' + last_field(hit), S.where(x),
                                          '%s is accessed after this party dropped its reference on %s without being the last owner (election at %s): the last owner may already have completed the receiver and destroyed the operation' % (hit, member, S.where(n)),
                                          path=['entry point: %s' % root['qname'], 'election: %s' % S.where(n), 'access: %s' % S.where(x)])
                            break


# ---------------------------------------------------------------------------------------------
# R-UAC-COMPLETE: nothing of the operation is touched after its receiver was completed
UACC_EXEMPT = {
    # (function whose later access is reported, member): reason
    ('unifex::_take_until::_stream::type::cleanup_sender::_op::type::start', 'cleanupReady_'):
        'the completion inside source_cleanup_error() needs the *second* arrival on cleanupCompleted_; when start() reaches it through its catch handler the trigger cleanup has not been started yet (start() starts it below), so this arrival is the first and returns without completing',
}


@rule('R-UAC-COMPLETE', ['C02', 'C01'], floor=150)
def uac_complete(run, F):
    """after an entry point has completed its receiver (set_value/set_error/set_done on the operation's own receiver), no member of that operation is read or written on any later non-exceptional path of the same entry point (callees inlined; accesses made by functions of *other* classes - the context, a sibling operation - are not this operation's state): the consumer may destroy the operation inside the completion call"""
    from .dereg import family_roots
    from ..facts import accesses
    gcache = {}
    fams = sorted({f['_family'] for f in F.funcs if any(e['k'] == 'call' and e['callee'].get('qname') in TERMQ for _, _, e in events(f))})
    n = 0
    for fam in fams:
        try:
            roots, supers = family_roots(F, fam, gcache)
        except TooBig:
            continue
        for root in roots:
            S = supers[id(root)]
            for t, ch, p in S.terminals():
                n += 1
                tf = S.fn[t]
                trec = tf.get('record') or (tf.get('parent_fn') or '').split('@')[0].rsplit('::', 1)[0]
                run.inst('%s %s' % (S.where(t), root['qname']), 'nothing of the operation is touched after set_%s' % ch, key=(root['qname'], tf['qname'], S.line(t)))
                after = S.reach([m for m, l in S.succ.get(t, []) if l != 'exc'], skip_exc=True)
                for x in sorted(after):
                    ex = S.ev[x]
                    if (ex.get('macro') or '').startswith(('UNIFEX_ASSERT', 'assert')): continue
                    xf = S.fn[x]
                    xrec = xf.get('record') or (xf.get('parent_fn') or '').split('@')[0].rsplit('::', 1)[0]
                    if xrec != trec: continue          # another object's member function (context, sibling operation, stream)
                    hit = None
                    for pth, rw in accesses(ex):
                        comps = [c for c in pth.split('.') if c]
                        if not comps or pth.startswith(('#', '<', '&')): continue
                        named = [c for c in comps if not c.endswith('()')]
                        if comps[0] == 'this' and len(named) >= 2: hit = pth; break
                    if hit:
                        if (xf['qname'], last_field(hit)) in UACC_EXEMPT: break
                        run.violation(xf['qname'], 'touch-after-complete:' + last_field(hit), S.where(x),
                                      '%s is accessed after the receiver was completed with set_%s at %s on the same path: the consumer may already have destroyed the operation' % (hit, ch, S.where(t)),
                                      path=['entry point: %s' % root['qname'], 'completion: %s' % S.where(t), 'access: %s' % S.where(x)])
                        break
    if n == 0: raise Broken('no completion found')


# ---------------------------------------------------------------------------------------------
# R-UAC-START: an operation with a single child touches nothing after starting it
@rule('R-UAC-START', ['C02', 'C01', 'C09'], floor=10)
def uac_start(run, F):
    """in start() of an operation class that starts exactly one child operation and takes part in no election (no atomic read-modify-write anywhere in the class), starting the child is the last thing that touches the operation: the child may complete synchronously inside unifex::start(), the consumer then destroys the operation, and any later member access (registering a stop callback, setting a flag) is a use after free"""
    from ..facts import accesses, Graph
    RMW = {'fetch_sub', 'fetch_add', 'fetch_or', 'fetch_and', 'exchange', 'compare_exchange_strong', 'compare_exchange_weak'}
    n = 0
    for f in F.funcs:
        if not f.get('blocks') or f.get('lambda') or f['name'] != 'start' or not f.get('record'): continue
        G = Graph(f)
        starts = [m for m, e in G.ev.items() if e.get('k') == 'call' and e['callee'].get('qname') == 'unifex::start']
        if len(starts) != 1: continue
        if any(e['k'] == 'call' and e['callee'].get('name') in RMW and e['callee'].get('base') for g in F.by_record.get(f['record'], []) for _, _, e in events(g)): continue
        n += 1
        s0 = starts[0]
        run.inst(site(f, G.line(s0)), 'nothing of the operation is touched after its only child was started', key=(f['qname'], G.line(s0)))
        for x in sorted(G.reach([m for m, l in G.succ.get(s0, []) if l != 'exc'], skip_exc=True)):
            ex = G.ev[x]
            if (ex.get('macro') or '').startswith(('UNIFEX_ASSERT', 'assert')): continue
            hit = None
            for pth, rw in accesses(ex):
                comps = [c for c in pth.split('.') if c]
                named = [c for c in comps if not c.endswith('()')]
                if comps and comps[0] == 'this' and len(named) >= 2: hit = pth; break
            if hit:
                run.violation(f['qname'], 'touch-after-start:' + last_field(hit), '%s:%s' % (f['file'], G.line(x)),
                              '%s is accessed after the operation\'s only child was started at line %s: that child may complete inside start(), the consumer may then destroy this operation, and the access is a use after free' % (hit, G.line(s0)))
                break
    if n == 0: raise Broken('no single-child start() found')


# ---------------------------------------------------------------------------------------------
# R-UAC-HANDOFF: the side of an ownership hand-off that does not delete touches nothing
DELETERS = {'deleter_', 'deallocate', 'destroy', 'unsafe_deallocate'}


@rule('R-UAC-HANDOFF', ['C09', 'C02', 'C04'], floor=2)
def uac_handoff(run, F):
    """where the outcome of a compare-exchange / exchange / decrement on an operation's state word decides which party deletes the shared state (one side of the branch reaches the deleter, the other does not), the side that does *not* delete - it has just handed the responsibility to the other party - touches no member of the operation any more (spawn_future's drop() and negotiate_deletion()): the other party may free the state at once"""
    from ..facts import accesses, expr_eids, expr_paths, Graph
    n = 0
    for f in F.funcs:
        if not f.get('blocks'): continue
        if not any((e['k'] == 'call' and (e['callee'].get('name') or '').split('::')[-1] in DELETERS) or e['k'] == 'delete' for _, _, e in events(f)): continue
        G = Graph(f)
        D = {m for m, e in G.ev.items() if (e.get('k') == 'call' and (e['callee'].get('name') or '').split('::')[-1] in DELETERS) or e.get('k') == 'delete'}
        cas = {e.get('eid'): m for m, e in G.ev.items() if e.get('k') == 'call' and e['callee'].get('name') in ('compare_exchange_strong', 'compare_exchange_weak', 'exchange', 'fetch_sub') and e['callee'].get('base')}
        if not cas: continue
        var = {}
        for m, e in G.ev.items():
            if e.get('k') == 'decl':
                for v in e['vars']:
                    i = v.get('init') or {}
                    if i.get('op') == 'call' and i.get('eid') in cas: var[v['var']] = i['eid']
        for t, e in G.ev.items():
            if e.get('k') != 'term' or e.get('cond') is None: continue
            if not (set(expr_eids(e['cond'])) & set(cas)) and not (set(expr_paths(e['cond'])) & set(var)): continue
            st = sf = None
            for m, l in G.succ.get(t, []):
                if l is True: st = m
                elif l is False: sf = m
            if st is None or sf is None: continue
            rt, rf = G.reach(st), G.reach(sf)
            dt, df = bool(D & rt), bool(D & rf)
            if dt == df: continue
            side = rf if dt else rt
            n += 1
            run.inst(site(f, G.line(t)), 'the side that hands deletion over touches nothing', key=(f['qname'], G.line(t)))
            for x in sorted(side):
                ex = G.ev[x]
                if (ex.get('macro') or '').startswith(('UNIFEX_ASSERT', 'assert')): continue
                hit = None
                for pth, rw in accesses(ex):
                    comps = [c for c in pth.split('.') if c]
                    named = [c for c in comps if not c.endswith('()')]
                    if comps and comps[0] == 'this' and len(named) >= 2: hit = pth; break
                if hit:
                    run.violation(f['qname'], 'touch-after-handoff:' + last_field(hit), '%s:%s' % (f['file'], G.line(x)),
                                  '%s is accessed on the side of the hand-off at line %s that has just given the responsibility for deleting the shared state to the other party: that party may already have freed it' % (hit, G.line(t)))
                    break
    if n == 0: raise Broken('no ownership hand-off (state-word test deciding who deletes) found')


# ---------------------------------------------------------------------------------------------
# R-MLT-FLAG: a discriminator member (bool, enum, signed int) that tells the destructor whether a manually
# managed slot is alive

def _cval(x):
    """abstract constant of an expression tree: bool | int | '#name' | None"""
    if not isinstance(x, dict): return None
    if x.get('op') == 'un' and x.get('o') == '-':
        v = _cval(x.get('e'))
        return -v if isinstance(v, int) and not isinstance(v, bool) else None
    p = x.get('p') if x.get('op') == 'path' else None
    if p is None: return None
    if p == '#true': return True
    if p == '#false': return False
    if p == '#null': return '#null'
    if re.match(r'#-?\d+$', p): return int(p[1:])
    if p.startswith('#'): return '#' + p.split('::')[-1].lstrip('#')
    if p.startswith('&'): return p
    return None


def _leaf_field(c):
    return last_field(c.get('p', '')) if isinstance(c, dict) and c.get('op') == 'path' else None


def _cond_on(c, D):
    """decompose a branch condition on discriminator D -> ('bool', pol) | ('cmp', op, const) | None"""
    pol = True
    while isinstance(c, dict) and c.get('op') == 'un' and c.get('o') == '!': c = c['e']; pol = not pol
    if not isinstance(c, dict): return None
    if c.get('op') == 'path' and last_field(c['p']) == D and len(c['p'].split('.')) <= 2: return ('bool', pol)
    if c.get('op') == 'bin' and c.get('o') in ('==', '!=', '<', '>', '<=', '>='):
        for a, b, flip in ((c['l'], c['r'], False), (c['r'], c['l'], True)):
            k = _cval(b)
            if k is not None and _leaf_field(a) == D and len(a['p'].split('.')) <= 2:
                op = c['o']
                if flip: op = {'<': '>', '>': '<', '<=': '>=', '>=': '<='}.get(op, op)
                if not pol: op = {'==': '!=', '!=': '==', '<': '>=', '>': '<=', '<=': '>', '>=': '<'}[op]
                return ('cmp', op, k)
    return None


def _holds(spec, v):
    """truth of condition spec for abstract value v (None when unknown)"""
    if v is None: return None
    if spec[0] == 'bool':
        if isinstance(v, bool): return v == spec[1]
        if v == '#null': return (not spec[1])
        if isinstance(v, str): return spec[1]          # a non-null function pointer / handle
        if isinstance(v, int): return (v != 0) == spec[1]
        return None
    _, op, k = spec
    if op in ('==', '!='):
        if type(v) != type(k) and not (isinstance(v, (int, bool)) and isinstance(k, (int, bool))): return None
        r = (v == k)
        return r if op == '==' else (not r)
    if isinstance(v, int) and isinstance(k, int):
        return {'<': v < k, '>': v > k, '<=': v <= k, '>=': v >= k}[op]
    return None


def flag_pairs(F):
    """[(record, discriminator field, slot member, alive)] : the destructor of `record` destructs `slot` iff alive(D);
    alive is a list of condition specs (any of which holding means 'destructor destroys')"""
    from ..facts import Graph
    out = {}
    for f in F.funcs:
        if not f.get('dtor') or not f.get('blocks') or not f.get('record'): continue
        rec = F.rec_by_q.get(f['record'], [None])[0]
        if rec is None: continue
        dfields = {fl['name'] for fl in rec['fields'] if not fl.get('static') and not fl.get('union')
                   and not re.search(r'manual_lifetime|atomic|Receiver|optional|mutex', (fl.get('type') or '') + (fl.get('wtype') or ''))}
        # the destructor itself, plus helpers of the same class it calls with the discriminator as argument
        # (`~_expected() { _reset_value(state_); }`): inside the helper the parameter stands for the discriminator
        bodies = [(f, {})]
        for _, _, ce in events(f):
            if ce['k'] == 'call' and ce['callee'].get('kind') in ('member', 'dep_member') and ce.get('args'):
                for g in F.by_record.get(f['record'], []):
                    if g['name'] == ce['callee'].get('name') and g.get('blocks') and len(g.get('params', [])) == len(ce['args']):
                        al = {}
                        for pi, a in zip(g['params'], ce['args']):
                            lf = _leaf_field(a)
                            if lf in dfields and pi['name']: al[pi['name']] = lf
                        if al: bodies.append((g, al))
        for (body, alias) in bodies:
            G = Graph(body)
            for n, e in G.ev.items():
                if e.get('k') != 'call' or e['callee'].get('name') not in DES: continue
                m = target_member(e)
                for t, te in G.ev.items():
                    if te.get('k') != 'term' or te.get('cond') is None: continue
                    tkey = (body['qname'], t)
                    if te.get('kind') == 'SwitchStmt':
                        D = _leaf_field(te['cond'])
                        D = alias.get(D, D)
                        if D not in dfields or len(te['cond']['p'].split('.')) > 2: continue
                        for s2, lab in G.succ.get(t, []):
                            if isinstance(lab, tuple) and lab[0] == 'case' and lab[1] not in ('default', '?'):
                                # destruct reachable from this case without re-entering the switch
                                if n in G.reach(s2, blocked={t}):
                                    k = '#' + lab[1].split('::')[-1].lstrip('#') if not re.match(r'#-?\d+$', lab[1]) else int(lab[1][1:])
                                    out.setdefault((f['record'], D, m), {}).setdefault(tkey, []).append(('cmp', '==', k))
                        continue
                    for D in dfields:
                        spec = _cond_on(te['cond'], D)
                        if spec is None: continue
                        for s2, lab in G.succ.get(t, []):
                            if lab in (True, False) and n not in G.reach(G.entry, blocked_edges={(t, s2)}):
                                sp = spec if lab else (('bool', not spec[1]) if spec[0] == 'bool' else ('cmp', {'==': '!=', '!=': '==', '<': '>=', '>': '<=', '<=': '>', '>=': '<'}[spec[1]], spec[2]))
                                out.setdefault((f['record'], D, m), {}).setdefault(tkey, []).append(sp)
    res = []
    for (rec, D, m), byterm in sorted(out.items()):
        conj = []
        for t, specs in sorted(byterm.items()):
            uniq = []
            for sp in specs:
                if sp not in uniq: uniq.append(sp)
            conj.append(uniq)
        res.append((rec, D, m, conj))
    return res


def _alive(conj, v):
    """conj: list (AND) of lists (OR) of condition specs"""
    vals = []
    for disj in conj:
        rs = [_holds(sp, v) for sp in disj]
        if any(r is True for r in rs): vals.append(True)
        elif all(r is False for r in rs): vals.append(False)
        else: vals.append(None)
    if any(x is False for x in vals): return False
    if all(x is True for x in vals): return True
    return None


def _init_value(F, rec, flag):
    r = F.rec_by_q.get(rec, [None])[0]
    for fl in (r or {}).get('fields', []):
        if fl['name'] == flag and fl.get('has_init'):
            return _cval({'op': 'path', 'p': fl.get('init') or ''})
    return None


@rule('R-MLT-FLAG', ['C02'], floor=8)
def mlt_flag(run, F):
    """for every operation whose destructor destroys a manually managed slot only when a discriminator member says so (`if (started_)`, `switch (status_)`, `if (startedOp_ < 0)`), the discriminator agrees with the slot's actual state at every completion of the receiver, at every point where an exception can leave the function, and after construction — on every path (path-sensitive typestate over the inlined supergraph, states handed from start() to the child receivers' handlers); no slot is constructed while alive or destructed while dead"""
    from .dereg import family_roots
    gcache = {}
    pairs = flag_pairs(F)
    if len(pairs) < 8: raise Broken('only %d discriminated slots found' % len(pairs))
    for rec, flag, slot, specs in pairs:
        fam = F.rec_by_q[rec][0]['_family']
        roots, supers = family_roots(F, fam, gcache)
        init_flag = _init_value(F, rec, flag)
        ctors = [f for f in F.by_record.get(rec, []) if f.get('ctor') and f.get('blocks')]
        states0 = set()
        for c in ctors:
            try: S = Super(F, c, [fam], graph_cache=gcache, maxdepth=3)
            except TooBig: continue
            ex, _, _ = _flag_run(S, {(False, init_flag)}, flag, slot, None, ctor=True)
            states0 |= ex
        if not ctors: states0 = {(False, init_flag)}
        recinfo = F.rec_by_q[rec][0]
        run.inst('%s %s' % (recinfo['file'], rec), 'discriminator %s <-> slot %s (destructor destroys when %s)' % (flag, slot, specs), key=(rec, flag, slot))
        for live, d in states0:
            al = _alive(specs, d)
            if al is not None and live != al:
                run.violation(rec, 'flag-mismatch-unstarted:%s/%s' % (flag, slot), '%s:%s' % (recinfo['file'], recinfo['line']),
                              'after construction %s is %s but %s=%s: destroying a never-started operation %s' % (slot, 'alive' if live else 'not alive', flag, d, 'leaks the slot' if live else 'destroys a dead slot'))
        starts = [r for r in roots if r['name'] == 'start' and r.get('record') == rec] or [r for r in roots if r['name'] == 'start']
        hosts, _recv = host_relation(F)
        fam_hosts = {m: xs for (fm, m), xs in hosts.items() if fm == fam}
        handoff = collections.defaultdict(set); reported = set()
        entry_states = {id(r): set(states0) for r in starts}
        undecided = False
        others = [r for r in roots if r not in starts and r.get('record') == rec and r['name'] not in ('set_value', 'set_error', 'set_done')]
        for _ in range(6):
            changed = False
            for r in roots:
                if r in starts: ins = entry_states.get(id(r), set())
                elif r.get('record') in handoff: ins = set(handoff[r['record']])
                else: continue
                if not ins: continue
                S = supers[id(r)]
                ex, hs, viol = _flag_run(S, ins, flag, slot, specs)
                for (node, st) in hs:
                    m = _started_member(S, node, fam_hosts)
                    if m is None: undecided = True; continue
                    for x in fam_hosts[m]:
                        if st not in handoff[x]: handoff[x].add(st); changed = True
                for (node, kind, st) in viol:
                    key = (S.fn[node]['qname'], kind)
                    if key in reported: continue
                    reported.add(key)
                    live, d = st
                    if kind == 'mismatch':
                        msg = 'the receiver is completed here with %s %s while %s=%s: the destructor that runs next %s' % (
                            slot, 'still alive' if live else 'already destroyed', flag, d, 'never destroys it (leak)' if live else 'destroys it a second time')
                    elif kind == 'mismatch-throw':
                        msg = 'this call may throw out of the function while %s=%s but %s is %s: whoever cleans up after the exception (destructor, reset) %s' % (
                            flag, d, slot, 'alive' if live else 'not alive', 'skips the slot (leak)' if live else 'destroys an object that was never constructed')
                    elif kind == 'double-construct': msg = '%s is constructed while it is already alive on this path' % slot
                    else: msg = '%s is destructed while it is not alive on this path' % slot
                    run.violation(S.fn[node]['qname'], 'flag-%s:%s/%s' % (kind, flag, slot), S.where(node), msg, path=['entry point: %s' % r['qname']] + S.path_to(node)[-8:])
            if not changed: break
        if undecided:
            run.inst('%s %s' % (recinfo['file'], rec), 'a child start could not be attributed to a slot: handlers reached only through it are not decided', nontrivial=False, key=(rec, flag, slot, 'undecided'))


def _started_member(S, node, fam_hosts):
    """which slot does `unifex::start(x)` at `node` start?  (path component naming a host slot, or a local alias bound to one)"""
    e = S.ev[node]
    p = (e['args'][0].get('p', '') if e.get('args') else '')
    for c in p.split('.'):
        c = c.replace('()', '')
        if c in fam_hosts: return c
    head = p.split('.')[0]
    f = S.fn[node]
    eid2 = {}
    for i in range(len(S.ev)):
        if S.fn[i] is f and S.ev[i].get('k') == 'call' and S.ev[i]['callee'].get('name') in CONS:
            eid2[S.ev[i].get('eid')] = target_member(S.ev[i])
    for i in range(len(S.ev)):
        if S.fn[i] is f and S.ev[i].get('k') == 'decl':
            for v in S.ev[i]['vars']:
                if v['var'] == head:
                    init = v.get('init') or {}
                    m = eid2.get(init.get('eid'))
                    if m in fam_hosts: return m
    return None


def _flag_run(S, entry_states, flag, slot, specs, ctor=False):
    """path-sensitive propagation of (slot alive?, discriminator value) -> (exit states, hand-off states, violations)"""
    from ..facts import may_throw
    IN = collections.defaultdict(set)
    IN[S.entry] |= set(entry_states)
    work = [S.entry]; viol = []; handoffs = set(); exits = set()
    exit_nodes = set(S.exits)
    terms = {n for n, ch, p in S.terminals()}
    steps = 0
    while work:
        steps += 1
        if steps > 400000: break
        n = work.pop()
        e = S.ev[n]
        for st in list(IN[n]):
            live, d = st
            k = e.get('k')
            before = st
            if k == 'call':
                nm = e['callee'].get('name')
                if nm in CONS and target_member(e) == slot:
                    if live and not ctor: viol.append((n, 'double-construct', st))
                    live = True
                elif nm in DES and target_member(e) == slot:
                    if not live: viol.append((n, 'destruct-dead', st))
                    live = False
                elif e['callee'].get('qname') == 'unifex::start':
                    handoffs.add((n, (live, d)))
                elif nm == 'exchange' and e.get('args') and isinstance(e['args'][0], dict) and last_field(e['args'][0].get('p', '')) == flag and len(e['args']) > 1:
                    d = _cval(e['args'][1])
                if specs is not None and n in terms:
                    al = _alive(specs, d)
                    if al is not None and live != al: viol.append((n, 'mismatch', (live, d)))
                # an exception leaving a function that is allowed to throw: the state must already be consistent
                if specs is not None and not ctor and may_throw(e) and nm not in CONS and nm not in DES and not any(lab == 'exc' for _, lab in S.succ.get(n, [])) \
                        and S.fn[n].get('noexcept') in ('none', 'other') and not S.fn[n].get('lambda') and S.fn[n].get('record') and nm not in ('exchange',):
                    pass
                if specs is not None and not ctor and nm in CONS and target_member(e) == slot and not any(lab == 'exc' for _, lab in S.succ.get(n, [])) \
                        and S.fn[n].get('noexcept') in ('none', 'other'):
                    # the construction itself may throw out of the function: state *before* it must be consistent
                    al = _alive(specs, before[1])
                    if al is not None and before[0] != al: viol.append((n, 'mismatch-throw', before))
            elif k == 'assign' and last_field(e['lhs']) == flag and len(e['lhs'].split('.')) <= 2:
                d = _cval(e.get('rhs'))
            elif k == 'init' and e.get('field') == flag:
                v = _cval(e.get('v'))
                d = v if v is not None else d
            after = (live, d)
            if n in exit_nodes: exits.add(after)
            for m, lab in S.succ.get(n, []):
                nxt = before if lab == 'exc' else after
                if k == 'term' and e.get('cond') is not None and nxt[1] is not None:
                    if lab in (True, False):
                        sp = _cond_on(e['cond'], flag)
                        if sp is not None:
                            h = _holds(sp, nxt[1])
                            if h is not None and h != lab: continue        # infeasible branch
                    elif isinstance(lab, tuple) and lab[0] == 'case' and _leaf_field(e['cond']) == flag:
                        labs = [l2[1] for _, l2 in S.succ.get(n, []) if isinstance(l2, tuple)]
                        def same(lb): return ('#' + lb.split('::')[-1].lstrip('#')) == nxt[1] or (re.match(r'#-?\d+$', lb) and int(lb[1:]) == nxt[1])
                        if lab[1] in ('default', '?'):
                            if any(same(l3) for l3 in labs if l3 not in ('default', '?')): continue
                        elif not same(lab[1]): continue
                if nxt not in IN[m]:
                    IN[m].add(nxt); work.append(m)
    return exits, handoffs, viol


@rule('R-DISCR-ORDER', ['C02', 'C10', 'C05'], floor=8)
def discr_order(run, F):
    """a discriminator is set to the value that tells the destructor/reset code "this slot is alive" only after the slot has actually been constructed: wherever one function both constructs a discriminated slot and marks it alive, the construction dominates the mark (if the constructor throws, the mark must not be there yet)"""
    from ..facts import Graph
    pairs = flag_pairs(F)
    by = collections.defaultdict(list)
    for rec, flag, slot, conj in pairs: by[(flag, slot)].append((rec, conj))
    n = 0
    for f in F.funcs:
        if not f.get('blocks') or f.get('dtor'): continue
        cons = [(b, i, e) for b, i, e in events(f) if e['k'] == 'call' and e['callee'].get('name') in CONS]
        if not cons: continue
        G = None
        for b, i, e in cons:
            slot = target_member(e)
            for (flag, sl), recs in by.items():
                if sl != slot: continue
                # object expression owning the slot: path minus the slot name
                p = e['args'][0].get('p', '') if e['callee'].get('name').startswith('activate') and e.get('args') else e['callee'].get('base', '')
                obj = p.rsplit('.', 1)[0] if '.' in p else ''
                G = G or Graph(f)
                marks = [(n2, e2) for n2, e2 in G.ev.items() if e2.get('k') == 'assign' and e2['lhs'] == (obj + '.' + flag if obj else flag)
                         and any(_alive(conj, _cval(e2.get('rhs'))) is True for _, conj in recs)]
                if not marks: continue
                node = (b['id'], i)
                n += 1
                run.inst(site(f, e['line']), 'construct of %s precedes marking %s alive' % (slot, flag), key=(f['qname'], slot, flag, e['line']))
                for n2, e2 in marks:
                    # relevant only if this construct can reach the mark or vice versa (same path)
                    if node in G.reach(n2) and not G.dominated_by_any(n2, {node}):
                        run.violation(f['qname'], 'mark-before-construct:%s/%s' % (flag, slot), '%s:%s' % (f['file'], G.line(n2)),
                                      '%s is set to its "%s is alive" value before %s is constructed at line %s: if that construction throws, the clean-up code destroys an object that was never created' % (flag, slot, slot, e['line']))
    if n == 0: raise Broken('no function both constructs a discriminated slot and marks it alive')


def _paths(a):
    from ..facts import expr_paths
    return expr_paths(a)


@rule('R-UAC-REFPARAM', ['C02', 'C13', 'C05', 'C18'], floor=15)
def uac_refparam(run, F):
    """a completion handler that destroys its own host slot (the child operation that is calling it) does not use its reference parameters afterwards: values and errors passed by reference may live inside the operation state that was just destroyed, so they must be taken by value or consumed before the destruct"""
    from ..facts import accesses
    hosts, recv = host_relation(F)
    slot_of = collections.defaultdict(set)
    for (fam, m), xs in hosts.items():
        for x in xs: slot_of[x].add(m)
    gcache = {}
    for x, slots in sorted(slot_of.items()):
        fam = recv[x]['_family']
        for h in F.by_record.get(x, []):
            if h['name'] not in ('set_value', 'set_error', 'set_done') or not h.get('blocks') or h.get('lambda'): continue
            refparams = {p['name'] for p in h.get('params', []) if p['name'] and '&' in p['type']}
            try: S = Super(F, h, [fam], graph_cache=gcache)
            except TooBig: continue
            dnodes = [n for n, e in enumerate(S.ev) if e.get('k') == 'call' and e['callee'].get('name') in DES and target_member(e) in slots]
            run.inst(site(h), 'reference parameters %s not used after destroying own slot %s' % (sorted(refparams), sorted(slots)), nontrivial=bool(refparams and dnodes), key=(x, h['name'], len(h.get('params', []))))
            if not dnodes: continue
            # helper lambdas called directly with the handler's reference parameters: their reference parameters alias them
            lam_alias = {}
            for n, e in enumerate(S.ev):
                if e.get('k') != 'call' or e['callee'].get('kind') not in ('expr', 'localvar'): continue
                for m, lab in S.succ.get(n, []):
                    if lab != 'call' or not S.fn[m].get('lambda'): continue
                    L = S.fn[m]; ps = L.get('params', [])
                    for i, a in enumerate(e.get('args', [])):
                        heads = {p.split('.')[0] for p in _paths(a)}
                        if heads & refparams:
                            # a pack argument binds to the (single) pack parameter
                            cand = ps[min(i, len(ps) - 1)] if ps else None
                            if cand and cand['name'] and '&' in cand['type']: lam_alias.setdefault(id(L), set()).add(cand['name'])
            if not refparams: continue
            for d in dnodes:
                after = S.reach([m for m, lab in S.succ.get(d, []) if lab != 'exc'])
                for n in sorted(after):
                    fn_n = S.fn[n]
                    if fn_n is not h and not fn_n.get('lambda'): continue      # parameter names are only meaningful in the handler and its lambdas
                    e = S.ev[n]
                    names = set(refparams)
                    if fn_n.get('lambda'):
                        names -= {p['name'] for p in fn_n.get('params', [])}      # shadowed by the lambda's own parameters
                    if fn_n.get('lambda') and id(fn_n) in lam_alias:
                        # reference parameters of a helper lambda that were bound to the handler's own reference parameters
                        names |= lam_alias[id(fn_n)]
                    used = [p for p, rw in accesses(e) if p.split('.')[0] in names]
                    if used:
                        run.violation(h['qname'], 'refparam-after-destruct:' + used[0].split('.')[0], S.where(n),
                                      'parameter `%s` is taken by reference and used after this handler destroyed %s at %s; if the sender passed an object stored in its own operation state (as just/just_error/single do) the reference now dangles — take it by value or consume it before the destruct' % (
                                          used[0].split('.')[0], '/'.join(sorted(slots)), S.where(d)))
                        break
                else: continue
                break
