"""R-MLT-* — manual-lifetime members (child operation states, stored results, callbacks): C02."""
import collections, json, re

from ..core import rule, site, Broken
from ..facts import events, last_field
from ..inline import Super, TooBig
from .c12_queries import receiver_records

CONS = {'construct', 'construct_with', 'emplace', 'activate_union_member', 'activate_union_member_with'}
DES = {'destruct', 'deactivate_union_member'}
ML_TYPE = re.compile(r'\bmanual_lifetime\b|\bmanual_lifetime_union\b')


def target_member(e):
    nm = e['callee'].get('name')
    if nm in ('activate_union_member', 'activate_union_member_with', 'deactivate_union_member'):
        return last_field(e['args'][0].get('p', '')) if e.get('args') else None
    return last_field(e['callee'].get('base', ''))


def _here(fn):
    return fn.get('record') or (fn.get('parent_fn') or '').split('@')[0].rsplit('::', 1)[0]


def _common(a, b):
    n = 0
    for x, y in zip(a.split('::'), b.split('::')):
        if x != y: break
        n += 1
    return n


def nearest(holders, fn):
    here = _here(fn)
    hs = sorted(holders, key=lambda q: -_common(q, here))
    if not hs: return None
    if len(hs) > 1 and _common(hs[0], here) == _common(hs[1], here): return None
    return hs[0]


def ml_fields(F):
    """(record qname, field name) -> field dict, for manually managed members"""
    out = {}
    for r in F.recs:
        for fl in r['fields']:
            if fl.get('static'): continue
            t = (fl.get('wtype') or '') + ' ' + fl.get('type', '')
            if ML_TYPE.search(t) and 'variant<' not in t and 'tuple<' not in t:
                out[(r['qname'], fl['name'])] = (r, fl)
    return out


# members that are deliberately never destructed, with the reason (one row per member)
PAIR_EXEMPT = {}


@rule('R-MLT-PAIR', ['C02'], floor=40)
def mlt_pair(run, F):
    """every manually managed member (manual_lifetime / manual_lifetime_union field) that some function constructs is destructed by some function of the same class family: a construct-only member is an object that is never destroyed"""
    fields = ml_fields(F)
    by_name = collections.defaultdict(list)
    for (rq, m) in fields: by_name[m].append(rq)
    cons = collections.defaultdict(list); des = collections.defaultdict(list)
    fam_of = {rq: r['_family'] for (rq, m), (r, fl) in fields.items()}
    for f in F.funcs:
        for b, i, e in events(f):
            if e['k'] != 'call': continue
            nm = e['callee'].get('name')
            if nm not in CONS and nm not in DES: continue
            m = target_member(e)
            if not m or m not in by_name: continue
            holders = [h for h in by_name[m] if fam_of[h] == f['_family']]
            if not holders: continue
            owner = nearest(holders, f) if len(holders) > 1 else holders[0]
            tgt = [owner] if owner else holders
            for o in tgt:
                (cons if nm in CONS else des)[(o, m)].append((f, e['line']))
    for (rq, m), (r, fl) in sorted(fields.items()):
        c, d = cons.get((rq, m), []), des.get((rq, m), [])
        if not c and not d: continue
        run.inst('%s:%s %s' % (r['file'], fl['line'], rq), '%s: %d construct site(s), %d destruct site(s)' % (m, len(c), len(d)), key=(rq, m))
        if c and not d and (rq, m) not in PAIR_EXEMPT:
            f0, ln = c[0]
            run.violation(rq, 'never-destructed:' + m, '%s:%s' % (f0['file'], ln),
                          'member %s (%s) is constructed here but no function ever destructs it: the object it holds is never destroyed' % (m, (fl.get('wtype') or fl.get('type', ''))[:60].replace('\n', ' ')))


def host_relation(F):
    """(family, member) -> receiver classes connected into the operation the member hosts"""
    recv = {r['qname']: r for r in receiver_records(F)}
    def short(q):
        p = q.split('::')
        return p[-2] if p[-1] == 'type' and len(p) > 1 else p[-1]
    def recv_of_type(t, fam):
        best = None
        for q, r in recv.items():
            if r['_family'] != fam: continue
            if re.search(r'\b' + re.escape(short(q)) + r'\b', t):
                if best is None or len(q) > len(best): best = q
        return best
    lam_by_parent = collections.defaultdict(list)
    for g in F.funcs:
        if g.get('lambda'): lam_by_parent[(g.get('parent_fn') or '').split('@')[0]].append(g)
    hosts = collections.defaultdict(set)
    for f in F.funcs:
        for b, i, e in events(f):
            if e['k'] != 'call' or e['callee'].get('name') not in CONS: continue
            m = target_member(e)
            if not m: continue
            txt = json.dumps(e.get('args'))
            for g in lam_by_parent.get(f['qname'], []):
                if ('<lambda@%d>' % g['line']) not in txt: continue
                for _, _, e2 in events(g):
                    if e2['k'] in ('construct', 'initlist'):
                        x = recv_of_type(e2.get('type', ''), f['_family'])
                        if x: hosts[(f['_family'], m)].add(x)
    return hosts, recv


@rule('R-MLT-HOST', ['C02'], floor=25)
def mlt_host(run, F):
    """a child receiver's completion handlers destroy their own host slot (the member holding the operation that receiver was connected into), never the slot hosting a sibling receiver's operation: destroying the wrong slot double-destroys one child and leaks the other"""
    hosts, recv = host_relation(F)
    slot_of = collections.defaultdict(set)      # receiver class -> its host members
    for (fam, m), xs in hosts.items():
        for x in xs: slot_of[x].add(m)
    gcache = {}
    for x, slots in sorted(slot_of.items()):
        r = recv[x]; fam = r['_family']
        others = {m: ys for (fm, m), ys in hosts.items() if fm == fam and m not in slots}
        for h in F.by_record.get(x, []):
            if h['name'] not in ('set_value', 'set_error', 'set_done') or not h.get('blocks') or h.get('lambda'): continue
            try:
                S = Super(F, h, [fam], graph_cache=gcache)
            except TooBig:
                run.inst(site(h), 'handler too large to inline (not decided)', nontrivial=False, key=(x, h['name'], 'big')); continue
            destructed = {}
            for n, e in enumerate(S.ev):
                if e.get('k') == 'call' and e['callee'].get('name') in DES:
                    m = target_member(e)
                    if m: destructed.setdefault(m, n)
            run.inst(site(h), 'destroys own slot %s; other slots %s untouched' % (sorted(slots), sorted(others)), key=(x, h['name'], len(h.get('params', []))))
            for m, n in destructed.items():
                if m in others and not (slots & set(destructed)):
                    run.violation(h['qname'], 'wrong-slot:' + m, S.where(n),
                                  'handler of %s destroys %s, which hosts the operation connected to %s, and never destroys its own slot %s: one child operation is destroyed twice and the other never' % (
                                      x.replace('unifex::', ''), m, ', '.join(sorted(y.replace('unifex::', '') for y in others[m])), '/'.join(sorted(slots))),
                                  path=S.path_to(n))


INIT_EXEMPT = {}


@rule('R-INIT-DISCR', ['C02'], floor=8)
def init_discr(run, F):
    """pointer/bool/integer members that some function of the class family branches on (queue links, discriminators, 'is constructed' flags) are initialised at construction — by a default member initialiser, by every constructor, or by a delegating constructor; otherwise a reader that runs before the first write (e.g. a stop callback executing inline during registration) acts on an indeterminate value"""
    from ..facts import expr_paths
    reads = collections.defaultdict(set)
    for f in F.funcs:
        for b in f.get('blocks', []):
            t = b.get('term')
            if t and t.get('cond') is not None and not (t.get('macro') or '').startswith(('UNIFEX_ASSERT', 'assert')):
                for p in expr_paths(t['cond']):
                    reads[(f['_family'], last_field(p))].add((f['file'], t.get('line'), f['qname']))
    for r in F.recs:
        if r.get('kind') == 'union': continue
        ctors = [f for f in F.by_record.get(r['qname'], []) if f.get('ctor') and f['file'] == r['file'] and r['line'] <= f['line'] <= r['endline']]
        if not ctors: continue     # aggregates / implicitly constructed: value-initialised by their users or not at all (not decided here)
        inits = []
        for c in ctors:
            s = set(); delegating = False
            for b, i, e in events(c):
                if e['k'] == 'init':
                    if e.get('field'): s.add(e['field'])
                    elif e.get('base') and e['base'].split('<')[0].split('::')[-1] in (r['qname'].split('::')[-1], 'type'): delegating = True
                if e['k'] == 'assign' and e['lhs'].split('.')[0] == 'this' and len(e['lhs'].split('.')) == 2: s.add(e['lhs'].split('.')[1])
            # move/copy constructors taking the same class also count when they initialise the field
            inits.append(None if delegating else s)
        for fl in r['fields']:
            if fl.get('static') or fl.get('has_init') or fl.get('union'): continue
            t = fl.get('type', '')
            if not (t.endswith('*') or t in ('bool', 'int', 'char', 'unsigned int', 'unsigned char')): continue
            rd = reads.get((r['_family'], fl['name']))
            if not rd: continue
            run.inst('%s:%s %s' % (r['file'], fl['line'], r['qname']), 'discriminator %s initialised at construction' % fl['name'], key=(r['qname'], fl['name']))
            if all(s is None or fl['name'] in s for s in inits): continue
            if (r['qname'], fl['name']) in INIT_EXEMPT: continue
            where = sorted(rd)[0]
            run.violation(r['qname'], 'uninitialised:' + fl['name'], '%s:%s' % (r['file'], fl['line']),
                          'member %s (%s) has no initialiser (no default member initialiser, not set by every constructor) but %s branches on it at %s:%s: a reader that runs before the first assignment sees an indeterminate value' % (
                              fl['name'], t, where[2], where[0], where[1]))
