"""R-SIG-* — completion-signal discipline (C01): at most one terminal completion per path, nothing
before start(), no silent path through a consuming handler."""
import collections, re

from ..core import rule, site, Broken
from ..facts import events, last_field, TERMQ, family_of
from ..inline import Super, TooBig
from .dereg import family_roots, owner_of, receiver_fields

# functions in which two completions on one syntactic path are legitimate, with the reason
SIG1_EXEMPT = {}


def _families_with_terminals(F):
    fams = set()
    for f in F.funcs:
        for b, i, e in events(f):
            if e['k'] == 'call' and e['callee'].get('qname') in TERMQ:
                fams.add(f['_family']); break
    return fams


@rule('R-SIG-1', ['C01'], floor=150)
def sig_once(run, F):
    """on every interprocedural path from an entry point of an algorithm (start, child-receiver handlers, stop-callback bodies — inlined supergraph) at most one terminal completion is delivered to the same receiver; the only second signal allowed is set_error from the handler of an exception thrown by set_value itself (the library's receiver contract)"""
    gcache = {}
    for fam in sorted(_families_with_terminals(F)):
        if fam in ('unifex::_rec_cpo', 'unifex'): continue
        roots, supers = family_roots(F, fam, gcache)
        rfields = receiver_fields(F, fam)
        for root in roots:
            S = supers[id(root)]
            terms = S.terminals()
            if not terms: continue
            tset = {n for n, ch, p in terms}
            info = {n: (ch, p) for n, ch, p in terms}
            for n, ch, p in terms:
                run.inst('%s %s' % (S.where(n), root['qname']), 'no second completion after %s(%s)' % (ch, p), key=(root['qname'], S.fn[n]['qname'], S.line(n), ch))
                # a throwing set_value may be followed by set_error in the handler: skip the exceptional edge out of the terminal itself
                start = [m for m, lab in S.succ.get(n, []) if lab != 'exc']
                r = S.reach(start)
                second = [m for m in r if m in tset and _same_receiver(F, rfields, S, n, m, info)]
                if second:
                    # two completions that are both decided by an election on the same atomic word exclude each other
                    # (only one arrival can be "the last one"/"the second one"): not a double completion
                    # -- but only if a *further* election on that word lies between the two completions
                    ga = _election_words(S, n)
                    keep = []
                    for m in second:
                        common = ga & _election_words(S, m)
                        if not common: keep.append(m); continue
                        between = set().union(*[S.__dict__['_elect_tests'][w] for w in common])
                        if m in S.reach(start, blocked=between): keep.append(m)
                    second = keep
                if second and S.fn[n]['qname'] not in SIG1_EXEMPT:
                    m = min(second, key=lambda x: S.line(x))
                    run.violation(S.fn[m]['qname'], 'second-completion:%s-after-%s' % (info[m][0], ch), S.where(m),
                                  'a second completion signal (%s at %s) can follow %s at %s on one path from entry point %s: the receiver would be completed twice' % (
                                      info[m][0], S.where(m), ch, S.where(n), root['qname']),
                                  path=['entry point: %s' % root['qname']] + S.path_to(n)[-6:] + ['... then ...', S.where(m)])


ATOMIC_TESTS = {'fetch_sub', 'fetch_add', 'exchange', 'compare_exchange_strong', 'compare_exchange_weak', 'fetch_or', 'fetch_and', 'load', 'try_complete'}


def _election_words(S, n):
    """atomic members M such that every path from the entry point to node n passes a branch on the result of
    an atomic operation on M (the completion at n is decided by an election on M)"""
    cache = S.__dict__.setdefault('_elect_cache', {})
    if n in cache: return cache[n]
    from ..facts import expr_eids
    tests = S.__dict__.get('_elect_tests')
    if tests is None:
        tests = collections.defaultdict(set)
        # per function instance: eid -> member for atomic calls; terminators referencing those eids (or locals initialised from them)
        byfn = collections.defaultdict(list)
        for i, e in enumerate(S.ev): byfn[id(S.fn[i])].append(i)
        for fid, nodes in byfn.items():
            eid2m = {}; var2m = {}
            for i in nodes:
                e = S.ev[i]
                if e.get('k') == 'call' and e['callee'].get('name') in ATOMIC_TESTS:
                    m = last_field(e['callee'].get('base', '')) or e['callee'].get('name')
                    if e['callee'].get('name') == 'try_complete': m = 'try_complete'
                    eid2m[e.get('eid')] = m
            for i in nodes:
                e = S.ev[i]
                if e.get('k') == 'decl':
                    for v in e['vars']:
                        for x in expr_eids(v.get('init')):
                            if x in eid2m: var2m[v['var']] = eid2m[x]
            for i in nodes:
                e = S.ev[i]
                if e.get('k') == 'term' and e.get('cond') is not None:
                    from ..facts import expr_paths
                    for x in expr_eids(e['cond']):
                        if x in eid2m: tests[eid2m[x]].add(i)
                    for p in expr_paths(e['cond']):
                        if p in var2m: tests[var2m[p]].add(i)
        S.__dict__['_elect_tests'] = tests
    out = set()
    for m, nodes in tests.items():
        if n not in S.reach(S.entry, blocked=nodes): out.add(m)
    cache[n] = out
    return out


def _same_receiver(F, rfields, S, a, b, info):
    pa, pb = info[a][1], info[b][1]
    if last_field(pa) != last_field(pb): return False
    oa, ob = owner_of(F, rfields, S.fn[a], pa), owner_of(F, rfields, S.fn[b], pb)
    return oa == ob


@rule('R-SIG-3', ['C01'], floor=60)
def sig_nothing_before_start(run, F):
    """constructors of operation states and connect() customisations deliver no completion signal and start no child operation (inlined): nothing happens before start() and nothing at all if an operation is never started"""
    gcache = {}
    fams = _families_with_terminals(F)
    for f in F.funcs:
        if f['_family'] not in fams or f.get('lambda') or not f.get('blocks'): continue
        is_connect = f['name'] == 'connect' or (f['name'] == 'tag_invoke' and f.get('params') and re.search(r'tag_t<(unifex::)?connect>|_connect::_cpo::_fn|_connect_cpo', f['params'][0]['type']))
        if not (f.get('ctor') or is_connect): continue
        try:
            S = Super(F, f, [f['_family']], graph_cache=gcache, maxdepth=4)
        except TooBig:
            continue
        run.inst(site(f), 'no completion and no child start during construction/connect', key=(f['qname'], len(f.get('params', []))), nontrivial=len(S.ev) > 3)
        for n, ch, p in S.terminals():
            run.violation(f['qname'], 'completes-before-start:' + ch, S.where(n), '%s delivers %s during %s: a receiver may be completed before (or without) start()' % (
                f['qname'], ch, 'construction' if f.get('ctor') else 'connect'), path=S.path_to(n))
        for n, e in enumerate(S.ev):
            if e.get('k') == 'call' and e['callee'].get('qname') == 'unifex::start' or (e.get('k') == 'call' and e['callee'].get('kind') == 'var' and e['callee'].get('name') == 'start' and 'unifex' in (e['callee'].get('qname') or '')):
                run.violation(f['qname'], 'starts-before-start', S.where(n), '%s starts a child operation during %s' % (f['qname'], 'construction' if f.get('ctor') else 'connect'), path=S.path_to(n))
