"""C12 — receiver queries reach all children (AST half; the type-level half is witness/queries.cpp)."""
import re

from ..core import rule, site, Broken
from ..facts import Graph, events, last_field, expr_paths

HANDLERS = {'set_value', 'set_error', 'set_done'}

# Receiver-like classes that legitimately have no generic forwarding overload.  One row per class,
# reason taken from the property's own wording ("adaptors whose children run within the lifetime of
# its receiver", "type-erased wrappers forward exactly the set they were declared with") or from
# the class being a *root* (there is no outer receiver to forward to).
EXEMPT = {
    'unifex::_spawn_detached::_spawn_detached_receiver::type': 'root receiver of a detached operation (no outer receiver); answers get_allocator itself',
    'unifex::_spawn_future::_spawn_future_receiver::type': 'root receiver of a spawned operation (no outer receiver)',
    'unifex::v0::_async_scope::_receiver::type': 'root receiver of a spawned operation (no outer receiver)',
    'unifex::_sync_wait::_receiver::type': 'root receiver (sync_wait); answers get_scheduler/get_stop_token itself',
    'unifex::_null::receiver': 'root receiver (null_receiver)',
    'unifex::_thread_unsafe_event_loop::_sync_wait_promise::type::receiver': 'root receiver (event-loop sync_wait)',
    'unifex::_task::_sr_thunk_promise_base::receiver_t': 'root receiver of the stop-request thunk (completes into a coroutine promise)',
    'unifex::_create_basic_sndr::_receiver_wrapper': 'not a child receiver: handle given to user callbacks of create_basic_sender',
    'unifex::_create_basic_sndr::_op': 'operation state exposing set_* to user callbacks; not connected to a child sender',
    'unifex::_detach_on_cancel::operation_state::_receiver': 'child outlives the receiver after detaching: only the internal stop token may be exposed',
    'unifex::_stop_immediately::_stream::type::next_receiver_base': 'abstract interface of the type-erased consumer receiver (no queries in the interface)',
    'unifex::_stop_immediately::_stream::type::next_receiver': 'abandoned next() outlives the consumer receiver: only the internal stop token may be exposed',
    'unifex::_stop_immediately::_stream::type::next_sender::_op::type::concrete_receiver': 'adapter from the abstract interface to the consumer receiver; not connected to a child',
    'unifex::_take_until::_stream::type::trigger_next_receiver': 'trigger operation outlives each next(): only the internal stop token may be exposed',
    'unifex::_type_erase::_stream::type::next_receiver_base': 'type-erased interface with a declared query set (get_scheduler, stop token)',
    'unifex::_type_erase::_stream::type::cleanup_receiver_base': 'type-erased interface with a declared query set (get_scheduler)',
    'unifex::_type_erase::_stream::type::_next_receiver::type': 'implements the type-erased interface (declared query set)',
    'unifex::_type_erase::_stream::type::_cleanup_receiver::type': 'implements the type-erased interface (declared query set)',
    'unifex::_type_erase::_stream::type::_stream::type::next_receiver_wrapper': 'type-erased wrapper: forwards exactly get_scheduler and the adapted stop token',
    'unifex::_type_erase::_stream::type::_stream::type::cleanup_receiver_wrapper': 'type-erased wrapper: forwards exactly get_scheduler',
}


def receiver_records(F):
    out = []
    for r in F.recs:
        ms = {m['name'] for m in r['methods']}
        if len(ms & HANDLERS) >= 2: out.append(r)
    return out


def _is_generic_param(t):
    t = t.replace('const ', '').replace('&', '').strip()
    return not t.startswith('tag_t<') and not t.startswith('unifex::tag_t<') and re.match(r'^[A-Za-z_]\w*$', t) is not None


@rule('R-QRY', ['C12'], floor=45)
def qry(run, F):
    """every receiver class connected to a child has the generic query-forwarding tag_invoke overload whose body invokes the CPO on the outer receiver (reached through a Receiver-typed field or a getter returning one); classes without one must be in the exemption table with the property's own reason"""
    recs = receiver_records(F)
    if len(recs) < 60: raise Broken('only %d receiver classes found' % len(recs))
    for r in recs:
        q = r['qname']
        tis = [f for f in F.by_record.get(q, []) if f['name'] == 'tag_invoke' and f['file'] == r['file'] and r['line'] <= f['line'] <= r['endline'] and not f.get('lambda')]
        gen = [f for f in tis if f['params'] and _is_generic_param(f['params'][0]['type']) and len(f['params']) >= 2]
        loc = '%s:%s' % (r['file'], r['line'])
        if q in EXEMPT:
            run.inst('%s %s' % (loc, q), 'exempt: ' + EXEMPT[q], nontrivial=False, key=q)
            continue
        run.inst('%s %s' % (loc, q), 'generic forwarding overload present and forwards to the outer receiver', key=q)
        if not gen:
            run.violation(q, 'no-forwarding-overload', loc,
                          'receiver class has no generic query-forwarding tag_invoke(CPO, const receiver&): get_scheduler/get_allocator/get_stop_token/custom queries issued by its child do not reach the outer receiver')
            continue
        ok = False
        why = ''
        for f in gen:
            cpo = f['params'][0]['name']; self_ = f['params'][1]['name']
            tgt = None
            for b, i, e in events(f):
                if e['k'] != 'call': continue
                ce = e['callee']
                if ce.get('name') == cpo and ce.get('kind') in ('expr', 'localvar') and e.get('args'):
                    tgt = e['args'][0].get('p', '')
            if tgt is None:
                why = 'the overload never invokes its CPO parameter'; continue
            if not tgt.startswith(self_ + '.') and tgt != 'p' and not tgt.startswith('p.'):
                why = 'the CPO is invoked on %s, which is not reached through the receiver argument' % tgt; continue
            if _reaches_receiver(F, r, tgt):
                ok = True; break
            why = 'the CPO is invoked on %s, which is not the outer receiver' % tgt
        if not ok:
            run.violation(q, 'forwarding-target', loc, 'generic query forwarding overload is present but ' + why)


def _reaches_receiver(F, r, path, depth=0):
    """does the access path end in a Receiver-typed field (directly or through getter methods)?"""
    comps = path.split('.')[1:]
    if not comps: return True     # `p` (a promise) — coroutine receivers forward to the promise
    lastc = comps[-1]
    if lastc.endswith('()'):
        name = lastc[:-2]
        # getter defined in this record or in a record of the same family
        cands = [g for g in F.by_family.get(r['_family'], []) if g['name'] == name and not g.get('lambda')]
        if not cands: return True   # getter of a foreign (template-parameter) type: not decidable here, accepted
        for g in cands:
            for b, i, e in events(g):
                if e['k'] == 'ret' and e.get('v'):
                    ps = expr_paths(e['v'])
                    if ps and depth < 3 and any(_reaches_receiver(F, r, 'x.' + '.'.join(p.split('.')[1:]) if '.' in p else 'x.' + p, depth + 1) for p in ps):
                        return True
        return False
    # a field: look its type up in the family's records
    for rr in F.recs:
        if rr['_family'] != r['_family']: continue
        for fl in rr['fields']:
            if fl['name'] == lastc and re.search(r'[Rr]eceiver|[Rr]cvr|\bR\b|Promise', (fl.get('wtype') or '') + ' ' + fl.get('type', '')):
                return True
    return False
