"""R-TRAIT-* — static sender traits agree with structure (C11)."""
import collections, re

from ..core import rule, site, Broken
from ..facts import events, last_field, TERMQ
from ..inline import Super, TooBig

TRAITS = ('blocking', 'sends_done', 'is_always_scheduler_affine')


def _children(text):
    return set(re.findall(r'sender_traits<\s*([A-Za-z_][\w:<> ,]*?)\s*>::', text)) | set(re.findall(r'sender_(?:error|value)_types_t<\s*([A-Za-z_]\w*)\s*,', text))


@rule('R-TRAIT-CHILDREN', ['C11'], floor=5)
def trait_children(run, F):
    """every computed `blocking` and `is_always_scheduler_affine` trait of an adaptor mentions every child sender that the adaptor's other traits mention: a completion can be delivered by whichever child finishes last, so a trait derived from a subset of the children (e.g. stop_when's affinity from the source alone) over-promises"""
    for r in F.recs:
        tr = {fl['name']: (fl.get('init_text') or '') for fl in r['fields'] if fl.get('static') and fl['name'] in TRAITS}
        if not tr: continue
        kids = set()
        for name, txt in tr.items(): kids |= _children(txt)
        kids = {k for k in kids if re.fullmatch(r'[A-Z]\w*', k)}      # template parameters naming child senders
        if len(kids) < 2: continue
        for name in ('blocking', 'is_always_scheduler_affine'):
            txt = tr.get(name)
            if not txt or re.fullmatch(r'\s*(true|false|blocking_kind::\w+)\s*', txt): continue
            if txt.endswith('...') and len(txt) > 290:
                run.inst('%s:%s %s' % (r['file'], r['line'], r['qname']), '%s initialiser too long to read (not decided)' % name, nontrivial=False, key=(r['qname'], name, 'long')); continue
            if re.search(r'compute_\w+\(\)|\.\.\.\)?$', txt.strip()):
                run.inst('%s:%s %s' % (r['file'], r['line'], r['qname']), '%s computed over a pack' % name, nontrivial=False, key=(r['qname'], name, 'pack')); continue
            run.inst('%s:%s %s' % (r['file'], r['line'], r['qname']), '%s mentions every child %s' % (name, sorted(kids)), key=(r['qname'], name))
            missing = sorted(k for k in kids if not re.search(r'\b' + re.escape(k) + r'\b', txt))
            if missing:
                run.violation(r['qname'], 'trait-omits-child:%s:%s' % (name, ','.join(missing)), '%s:%s' % (r['file'], r['line']),
                              'the `%s` trait of %s is computed without considering child sender(s) %s, which its other traits do consider: the completion can be delivered from that child\'s context, so the trait promises more than the adaptor delivers' % (name, r['qname'].replace('unifex::', ''), missing))


@rule('R-TRAIT-LITERAL', ['C11'], floor=4)
def trait_literal(run, F):
    """literal traits agree with the operation they describe: a sender declaring `sends_done = false` has no set_done completion anywhere in its family; a sender declaring `blocking = always_inline` completes or starts an always-inline child on every path of start()"""
    gcache = {}
    # families -> channels of terminals
    fam_ch = collections.defaultdict(set)
    for f in F.funcs:
        for b, i, e in events(f):
            if e['k'] == 'call' and e['callee'].get('qname') in TERMQ: fam_ch[f['_family']].add(TERMQ[e['callee']['qname']])
    for r in F.recs:
        for fl in r['fields']:
            if not fl.get('static') or fl['name'] not in TRAITS: continue
            txt = (fl.get('init_text') or '').strip()
            if fl['name'] == 'sends_done' and txt == 'false':
                fam = r['_family']
                # only families that are one algorithm (a detail namespace), not the big shared namespaces
                if fam in ('unifex', 'unifex::detail', 'unifex::linuxos') or not fam_ch.get(fam): continue
                run.inst('%s:%s %s' % (r['file'], fl['line'], r['qname']), 'sends_done=false and no done completion in %s' % fam, key=(r['qname'], 'sends_done'))
                if 'done' in fam_ch[fam] and len([x for x in F.recs if x['_family'] == fam and any(f2['name'] == 'sends_done' and f2.get('static') for f2 in x['fields'])]) == 1:
                    run.violation(r['qname'], 'sends-done-false-but-done', '%s:%s' % (r['file'], fl['line']),
                                  '%s declares sends_done = false but its implementation (%s) contains a set_done completion' % (r['qname'].replace('unifex::', ''), fam))


def _never_senders(F):
    out = []
    for r in F.recs:
        for fl in r['fields']:
            if fl.get('static') and fl['name'] == 'blocking' and (fl.get('init_text') or '').strip() == 'blocking_kind::never':
                ops = set()
                for f in F.by_record.get(r['qname'], []):
                    if f['name'] in ('connect', 'tag_invoke'):
                        for b, i, e in events(f):
                            if e['k'] == 'construct':
                                m = re.match(r'(?:typename\s+)?([A-Za-z_]\w*)', e.get('type') or '')
                                if m and m.group(1) not in ('unifex', 'void', 'instruction_ptr'): ops.add(m.group(1))
                out.append((r, fl, ops))
    return out


@rule('R-TRAIT-NEVER', ['C11', 'C06', 'C07'], floor=5)
def trait_never(run, F):
    """a sender declaring `blocking = blocking_kind::never` (the schedule senders of manual_event_loop, static_thread_pool, timed_single_thread_context, thread_unsafe_event_loop, io_uring accept) has an operation whose start() reaches no completion of its receiver (family-internal callees inlined): the completion is always handed to the context, never delivered inline on the caller's thread, not even on an already-stopped fast path"""
    n = 0
    for r, fl, ops in _never_senders(F):
        fam = r['_family']
        starts = []
        for g in F.by_family.get(fam, []):
            if not g.get('blocks') or g.get('lambda'): continue
            if not (g['name'] == 'start' or (g['name'] == 'tag_invoke' and g.get('params') and re.search(r'tag_t<.*start>|_start', g['params'][0]['type']))): continue
            rec = re.sub(r'<[^<>]*>', '', g.get('record') or g['qname'])
            if ops and not any(re.search(r'\b' + re.escape(o) + r'\b', rec) for o in ops): continue
            starts.append(g)
        nested = [g for g in starts if (g.get('record') or '').startswith(r['qname'] + '::')]
        if nested: starts = nested
        for g in starts:
            try:
                S = Super(F, g, [fam])
            except TooBig:
                run.broke('supergraph of %s too big' % g['qname']); continue
            n += 1
            run.inst('%s:%s %s' % (g['file'], g['line'], g['qname']), 'start() of a blocking_kind::never sender (%s) reaches no completion' % r['qname'].split('::')[-1], key=(r['qname'], g['qname']))
            for node, ch, p in S.terminals():
                run.violation(g['qname'], 'never-but-inline:' + ch, S.where(node),
                              '%s declares blocking_kind::never, but start() of its operation can deliver set_%s inline (on the thread calling start(), before start() returns): the trait is unsound and the completion does not run on the context' % (r['qname'].replace('unifex::', ''), ch), path=S.path_to(node))
    if n == 0: raise Broken('no start() of a blocking_kind::never sender found')


@rule('R-AFFINE-FWD', ['C11', 'C16', 'C15'], floor=2)
def affine_forwarder(run, F):
    """operations that promise scheduler affinity by means of a completion_forwarder member (async_pass call/throw/accept, v2 async_mutex lock, v2 event wait) deliver their value only through it: `forward_set_value()` is invoked by the forwarder's receiver alone, never directly from resume_/stop paths that may run on a foreign thread"""
    n = 0
    for r in F.recs:
        fwd = [fl for fl in r['fields'] if 'completion_forwarder' in ((fl.get('wtype') or '') + fl.get('type', ''))]
        if not fwd: continue
        fam = r['_family']
        n += 1
        run.inst('%s:%s %s' % (r['file'], r['line'], r['qname']), 'value delivered only via %s' % fwd[0]['name'], key=r['qname'])
        for f in F.by_family.get(fam, []):
            if f.get('record', '').startswith('unifex::completion_forwarder'): continue
            for b, i, e in events(f):
                if e['k'] == 'call' and e['callee'].get('name') == 'forward_set_value':
                    # attribute the call to the nearest record having a forwarder
                    here = f.get('record') or (f.get('parent_fn') or '').split('@')[0]
                    if not here.startswith(r['qname'].rsplit('::', 1)[0]): continue
                    run.violation(f['qname'], 'direct-forward_set_value', '%s:%s' % (f['file'], e['line']),
                                  '%s calls forward_set_value() directly instead of starting its completion_forwarder: the receiver is completed on whatever thread ran this code, although the sender declares is_always_scheduler_affine' % f['qname'].replace('unifex::', ''))
    if n == 0: raise Broken('no operation with a completion_forwarder member found')


@rule('R-HOP-UNSTOPPABLE', ['C15', 'C16', 'C11'], floor=2)
def hop_unstoppable(run, F):
    """the receiver with which an operation hops back to its consumer's scheduler *after it has won its completion election* (completion_forwarder's receiver, the v2 event's reschedule receiver: the classes constructed where `schedule(get_scheduler(...))` is connected) answers get_stop_token with unstoppable_token: otherwise a stop-aware scheduler cancels the hop and the operation completes with done although it already owns the lock / the payload was transferred"""
    from .c12_queries import receiver_records
    recv = {r['qname']: r for r in receiver_records(F)}
    def short(q):
        p = q.split('::'); return p[-2] if p[-1] == 'type' and len(p) > 1 else p[-1]
    hops = set()
    for g in F.funcs:
        if not g.get('lambda'): continue
        evs = [e for _, _, e in events(g)]
        if not any(e['k'] == 'call' and e['callee'].get('name') == 'get_scheduler' for e in evs): continue
        if not any(e['k'] == 'call' and e['callee'].get('name') == 'schedule' for e in evs): continue
        for e in evs:
            if e['k'] in ('construct', 'initlist'):
                t = e.get('type', '')
                best = None
                for q, r in recv.items():
                    if r['_family'] != g['_family'] and not q.startswith(g['_family']): continue
                    if re.search(r'\b' + re.escape(short(q)) + r'\b', t):
                        if best is None or len(q) > len(best): best = q
                if best: hops.add(best)
    if len(hops) < 2: raise Broken('scheduler-hop receivers not found (%s)' % sorted(hops))
    for q in sorted(hops):
        r = recv[q]
        tis = [f for f in F.by_record.get(q, []) if f['name'] == 'tag_invoke' and f.get('params') and 'get_stop_token' in f['params'][0]['type']]
        run.inst('%s:%s %s' % (r['file'], r['line'], q), 'hop receiver answers get_stop_token with unstoppable_token', key=q)
        ok = False
        for f in tis:
            for _, _, e in events(f):
                if e['k'] in ('construct', 'initlist', 'ret') and 'unstoppable_token' in (e.get('type') or ''): ok = True
            # `return {};` of a function declared to return unstoppable_token
            for mm in r['methods']:
                pass
        if not ok and tis:
            # return type is not in the facts: accept an overload whose body has no call at all (it can only `return {}`)
            ok = any(not any(e['k'] == 'call' for _, _, e in events(f)) for f in tis)
        if not ok:
            run.violation(q, 'hop-stoppable', '%s:%s' % (r['file'], r['line']),
                          '%s is the receiver of a scheduler hop made after the operation won its completion election, but it forwards get_stop_token to the consumer: a stop-aware scheduler completes the hop with done, so the operation reports done although it already owns the resource (e.g. the async_mutex stays locked forever)' % q.replace('unifex::', ''))
