"""R-ELECT-* — shape of reference-count / flag elections that decide which party completes an
operation (C01, C04, C08, C10, C13, C14, C19 ...).  Instances are derived from the code: every atomic
fetch_sub/fetch_add whose result is compared with a literal.
"""
import collections, re

from ..core import rule, site, Broken
from ..facts import Graph, events, last_field, expr_eids, expr_paths, memorder, TERMQ
from ..inline import Super, TooBig
from .atomics import prop_of_file

F_GLOBAL = []


def _helper_shift(F, callee):
    """0 if the count helper masks (x & m), n if it shifts (x >> n), None if unknown"""
    cands = [g for g in F.funcs if g['name'] == callee.get('name') and g.get('blocks') and (not callee.get('qname') or g['qname'] == callee.get('qname'))]
    if not cands: cands = [g for g in F.funcs if g['name'] == callee.get('name') and g.get('blocks')]
    res = set()
    for g in cands:
        for _, _, e in events(g):
            if e['k'] == 'ret' and isinstance(e.get('v'), dict):
                v = e['v']
                if v.get('op') == 'bin' and v.get('o') == '>>' and _lit(v.get('r')) is not None: res.add(_lit(v['r']))
                elif v.get('op') == 'bin' and v.get('o') == '&': res.add(0)
    return res.pop() if len(res) == 1 else None


COUNT_HELPERS = {'ref_count', 'use_count', 'op_count'}
PROPS = ['C01', 'C04', 'C06', 'C08', 'C09', 'C10', 'C13', 'C14', 'C15', 'C16', 'C19']


def _lit(x):
    if isinstance(x, dict) and x.get('op') == 'path' and re.match(r'#-?\d+$', x.get('p', '')): return int(x['p'][1:])
    return None


def rmw_tests(f, G):
    """[(call node, event, term node, op, literal, via)] for fetch_add/fetch_sub results compared with a literal"""
    out = []
    eid2node = {e.get('eid'): n for n, e in G.ev.items() if e.get('k') == 'call'}
    var2eid = {}
    for n, e in G.ev.items():
        if e.get('k') == 'decl':
            for v in e['vars']:
                init = v.get('init') or {}
                if init.get('op') == 'call' and 'eid' in init: var2eid[v['var']] = init['eid']
    # bool locals holding the comparison:  const bool last = x.fetch_sub(1) == 1;  ... if (!last)
    var2cmp = {}
    def cmp_of(c):
        if isinstance(c, dict) and c.get('op') == 'bin' and c.get('o') in ('==', '!='):
            for a, b in ((c['l'], c['r']), (c['r'], c['l'])):
                k = _lit(b)
                if k is None: continue
                eid = a.get('eid') if a.get('op') == 'call' else var2eid.get(a.get('p')) if a.get('op') == 'path' else None
                if eid in eid2node and G.ev[eid2node[eid]]['callee'].get('name') in ('fetch_sub', 'fetch_add'): return (eid, c['o'], k)
        return None
    for n, e in G.ev.items():
        if e.get('k') == 'decl':
            for v in e['vars']:
                cc = cmp_of(v.get('init'))
                if cc: var2cmp[v['var']] = cc
    for tn, t in G.ev.items():
        if t.get('k') != 'term' or t.get('cond') is None: continue
        c0 = t['cond']; pol = True
        while isinstance(c0, dict) and c0.get('op') == 'un' and c0.get('o') == '!': c0 = c0['e']; pol = not pol
        if isinstance(c0, dict) and c0.get('op') == 'path' and c0.get('p') in var2cmp:
            eid, op, k = var2cmp[c0['p']]
            if not pol: op = '!=' if op == '==' else '=='
            out.append((eid2node[eid], G.ev[eid2node[eid]], tn, op, k))
            continue
        def walk(c):
            if not isinstance(c, dict): return
            if c.get('op') == 'bin' and c.get('o') in ('==', '!=', '<', '<=', '>', '>='):
                for a, b in ((c['l'], c['r']), (c['r'], c['l'])):
                    k = _lit(b)
                    if k is None: continue
                    eid = None
                    if a.get('op') == 'call' and 'eid' in a:
                        eid = a['eid']
                        # count-extracting helpers are transparent: ref_count(old) == 1
                        cn2 = eid2node.get(eid)
                        if cn2 is not None and G.ev[cn2]['callee'].get('name') in COUNT_HELPERS and G.ev[cn2].get('args'):
                            ap = G.ev[cn2]['args'][0]
                            if ap.get('op') == 'path' and ap.get('p') in var2eid: eid = var2eid[ap['p']]
                            elif ap.get('op') == 'call' and 'eid' in ap: eid = ap['eid']
                            sh = _helper_shift(F_GLOBAL[0], G.ev[cn2]['callee']) if F_GLOBAL else None
                            if sh is None: eid = None          # helper semantics unknown: not decided
                            elif sh: k = k << sh               # helper returns old >> sh : compare in the word's units
                    elif a.get('op') == 'path' and a.get('p') in var2eid: eid = var2eid[a['p']]
                    if eid is None or eid not in eid2node: continue
                    cn = eid2node[eid]; ce = G.ev[cn]
                    if ce['callee'].get('name') in ('fetch_sub', 'fetch_add') and 'atomic' in (ce['callee'].get('basetype', '') + ce['callee'].get('qname', '')) or \
                       (ce['callee'].get('name') in ('fetch_sub', 'fetch_add') and ce['callee'].get('kind') == 'dep_member'):
                        op = c['o'] if a is c['l'] else {'<': '>', '>': '<', '<=': '>=', '>=': '<='}.get(c['o'], c['o'])
                        out.append((cn, ce, tn, op, k))
            for kk in ('l', 'r', 'e'):
                if kk in c: walk(c[kk])
        walk(t['cond'])
    return out


def _mk(prop):
    @rule('R-ELECT-' + prop, [prop], floor=1, configs=(['d20', 'r20', 'v20'] if prop == 'C10' else None))
    def r(run, F, prop=prop):
        gcache = {}
        n = 0
        F_GLOBAL[:] = [F]
        for f in F.funcs:
            if prop_of_file(f['file']) != prop or not f.get('blocks'): continue
            has = any(e['k'] == 'call' and e['callee'].get('name') in ('fetch_sub', 'fetch_add') for _, _, e in events(f))
            if not has: continue
            G = Graph(f)
            for cn, ce, tn, op, k in rmw_tests(f, G):
                name = ce['callee']['name']; member = last_field(ce['callee'].get('base', ''))
                amt = _lit(ce['args'][0]) if ce.get('args') else None
                loc = '%s:%s' % (f['file'], G.line(cn))
                n += 1
                run.inst(site(f, G.line(cn)), '%s.%s(%s) %s %s' % (member, name, amt, op, k), key=(f['qname'], member, name))
                if amt is None: continue
                if name == 'fetch_sub':
                    # last-owner election: old value == amount subtracted
                    if op not in ('==', '!=') or k != amt:
                        run.violation(f['qname'], 'elect-compare:%s' % member, loc,
                                      'the result of %s.fetch_sub(%d) is tested with `%s %d`; the party that removes the last %d unit(s) is the one that observes exactly %d — any other test elects no one or several parties' % (member, amt, op, k, amt, amt))
                        continue
                    win_label = (op == '==')
                else:
                    # bail-out increment: old value 0 means the operation already completed
                    if op not in ('==', '!=') or k != 0:
                        run.violation(f['qname'], 'elect-compare:%s' % member, loc,
                                      'the result of %s.fetch_add(%d) is tested with `%s %d`; the "already completed" test must be against 0' % (member, amt, op, k))
                        continue
                    win_label = (op != '==')       # continuing (not bailed out) edge
                # direction: the losing edge must not reach a completion of the receiver, the winning edge should
                try:
                    S = Super(F, f, [f['_family']], graph_cache=gcache)
                except TooBig:
                    continue
                # locate the terminator in the supergraph (root function's own nodes come first)
                tnode = next((i for i in range(len(S.ev)) if S.fn[i] is f and S.gn[i] == tn), None)
                if tnode is None: continue
                win = lose = None
                for m, lab in S.succ.get(tnode, []):
                    if lab is win_label: win = m
                    elif lab is (not win_label): lose = m
                terms = {x for x, ch, p in S.terminals()}
                if name == 'fetch_sub' and lose is not None and win is not None:
                    rl = S.reach(lose, blocked={win}) & terms
                    rw = S.reach(win) & terms
                    # only terminals that are exclusive to the losing side count (code after the if is shared)
                    excl = {x for x in rl if x not in S.reach(win)}
                    if excl and not rw:
                        x = min(excl)
                        run.violation(f['qname'], 'elect-direction:%s' % member, loc,
                                      'the party that did NOT remove the last reference to %s goes on to complete the receiver (%s) while the last owner does not: the election is inverted' % (member, S.where(x)))
                if name == 'fetch_add' and win is not None:
                    # pairing: on every continuing path a decrement of the same member follows
                    decs = {i for i, e in enumerate(S.ev) if e.get('k') == 'call' and e['callee'].get('name') == 'fetch_sub' and last_field(e['callee'].get('base', '')) == member}
                    # handing the decision to a child operation (unifex::start) also counts: its receiver decrements
                    handoff = {i for i, e in enumerate(S.ev) if e.get('k') == 'call' and e['callee'].get('qname') == 'unifex::start'}
                    ok = _must_reach(S, win, decs | handoff)
                    if not ok:
                        run.violation(f['qname'], 'elect-unpaired:%s' % member, loc,
                                      'after the bail-out increment of %s a path reaches the end of the entry point without the matching decrement: the operation can never complete (its last owner never sees the count drop to the final value)' % member)
                    if lose is not None:
                        bad = S.reach(lose, blocked={win}) & terms
                        bad = {x for x in bad if x not in S.reach(win)}
                        if bad:
                            run.violation(f['qname'], 'elect-direction:%s' % member, loc,
                                          'the bail-out branch (operation already completed) still completes the receiver at %s' % S.where(min(bad)))
                        # old value 0 means another party is delivering the result and may destroy the operation: touch nothing
                        from ..facts import accesses
                        for x in sorted(S.reach(lose)):
                            ex = S.ev[x]
                            if (ex.get('macro') or '').startswith(('UNIFEX_ASSERT', 'assert')): continue
                            hit = None
                            for p2, rw in accesses(ex):
                                comps = [c for c in p2.split('.') if c]
                                if p2.startswith(('#', '<', '&')) or comps[-1].endswith('()'): continue
                                named = [c for c in comps if not c.endswith('()')]
                                if len(named) >= 2: hit = p2; break
                            if hit:
                                run.violation(f['qname'], 'touch-after-bailout:%s' % member, S.where(x),
                                              'on the bail-out branch of %s.fetch_add (old value 0: the result is already being delivered by another party) the operation is still used (%s): it may already be destroyed, and a further decrement elects a second completer' % (member, hit))
                                break
        if n == 0: raise Broken('no reference-count election found in the files owned by ' + prop)
    r.__doc__ = 'every atomic fetch_sub/fetch_add whose result decides who completes: the old value is compared (==/!=) with exactly the amount removed (fetch_sub) or with 0 (bail-out fetch_add); the losing side of a last-owner election reaches no completion that the winning side lacks; every bail-out increment is followed on all continuing paths by the matching decrement (inlined supergraph)'
    from .. import core
    core.RULES['R-ELECT-' + prop]['doc'] = r.__doc__
    return r


def _must_reach(S, start, posts):
    seen = set(); work = [start]
    exits = set(S.exits)
    while work:
        n = work.pop()
        if n in seen or n in posts: continue
        seen.add(n)
        succs = [m for m, lab in S.succ.get(n, []) if lab != 'exc']
        if n in exits: return False
        for m in succs: work.append(m)
    return True


for _p in ('C01', 'C08', 'C10', 'C13', 'C14', 'C19', 'C06'):
    _mk(_p)
