"""C17 — bulk_schedule visits each index once before completing; find_if publishes per chunk."""
import re

from ..core import rule, site, Broken
from ..facts import Graph, events, last_field, expr_paths, expr_eids, TERMQ


def _loops(G):
    """for-loops: (term node, cond) with kind ForStmt"""
    return [(n, e) for n, e in G.ev.items() if e.get('k') == 'term' and e.get('kind') == 'ForStmt' and e.get('cond') is not None]


@rule('R-LOOP-BULK', ['C17'], floor=6)
def bulk_loops(run, F):
    """bulk_schedule's schedule receiver: every index loop is a half-open `for (i = lo; i < hi; ++i)` over set_next with hi = min(lo + chunk, count) (or count itself when stop is impossible); the chunk loop advances by the same chunk size it clamps with; the stop test sits at the start of each chunk and its done-branch returns; set_value is delivered only after the loops and never after a done"""
    fs = [f for f in F.funcs if f['qname'].startswith('unifex::_bulk_schedule::_schedule_receiver') and f['name'] == 'set_value' and f.get('blocks')]
    if not fs: raise Broken('bulk_schedule schedule receiver set_value not found')
    for f in fs:
        G = Graph(f)
        nexts = [n for n, e in G.ev.items() if e.get('k') == 'call' and e['callee'].get('name') == 'set_next']
        if len(nexts) < 4: raise Broken('expected four set_next loops in bulk_schedule, found %d' % len(nexts))
        loops = _loops(G)
        for n in nexts:
            # innermost loop containing n: a ForStmt terminator from whose true edge n is reachable and which n reaches back
            inner = None
            for t, e in loops:
                tt = [m for m, lab in G.succ.get(t, []) if lab is True]
                if tt and n in G.reach(tt[0], blocked={t}) and t in G.reach(n):
                    c = e['cond']
                    if inner is None or G.line(t) > G.line(inner[0]): inner = (t, c)
            run.inst(site(f, G.line(n)), 'set_next inside a half-open index loop', key=(f['qname'], G.line(n)))
            if inner is None:
                run.violation(f['qname'], 'set_next-not-in-loop', '%s:%s' % (f['file'], G.line(n)), 'set_next is not inside an index loop'); continue
            c = inner[1]
            if not (c.get('op') == 'bin' and c.get('o') == '<'):
                run.violation(f['qname'], 'loop-bound-form', '%s:%s' % (f['file'], G.line(inner[0])),
                              'the index loop around set_next tests `%s` instead of `i < bound`: with `<=` the index one past the range is visited, with `!=` a chunk bound that is not hit exactly overruns' % c.get('o'))
                continue
            bound = (c['r'].get('p') or '')
            if last_field(bound) not in ('count_', 'chunk_end'):
                run.violation(f['qname'], 'loop-bound', '%s:%s' % (f['file'], G.line(inner[0])), 'the index loop is bounded by %s, not by the element count or the clamped chunk end' % bound)
        # chunk_end = min(chunk_start + C, count_)
        ce = [e for n, e in G.ev.items() if e.get('k') == 'decl' and any(v['var'] == 'chunk_end' for v in e['vars'])]
        run.inst(site(f), 'chunk end clamped to the count', key='clamp')
        mins = [n for n, e in G.ev.items() if e.get('k') == 'call' and e['callee'].get('name') == 'min']
        ok = False
        for n in mins:
            ps = [p for a in G.ev[n].get('args', []) for p in expr_paths(a)]
            if any(last_field(p) == 'count_' for p in ps) and any('chunk_start' in p for p in ps) and any('bulk_cancellation_chunk_size' in p for p in ps): ok = True
        if not ok:
            run.violation(f['qname'], 'chunk-not-clamped', '%s:%s' % (f['file'], f['line']), 'the end of a cancellation chunk is not min(chunk_start + chunk_size, count): the last chunk runs past the requested number of indices or stops short')
        # chunk loop increment uses the same constant
        inc = [e for n, e in G.ev.items() if e.get('k') == 'assign' and e.get('o') == '+=' and e['lhs'] == 'chunk_start']
        run.inst(site(f), 'chunk loop advances by the chunk size', key='advance')
        if not inc or not any('bulk_cancellation_chunk_size' in p for e in inc for p in expr_paths(e.get('rhs'))):
            run.violation(f['qname'], 'chunk-advance', '%s:%s' % (f['file'], f['line']), 'the chunk loop does not advance by bulk_cancellation_chunk_size: indices are skipped or visited twice')
        # stop test at chunk start: the done terminal is followed by return, and dominates nothing else
        dones = [n for n, e in G.ev.items() if e.get('k') == 'call' and e['callee'].get('qname') in TERMQ and TERMQ[e['callee']['qname']] == 'done']
        vals = [n for n, e in G.ev.items() if e.get('k') == 'call' and e['callee'].get('qname') in TERMQ and TERMQ[e['callee']['qname']] == 'value']
        run.inst(site(f), 'done returns; value only after all loops', key='terminal')
        for d in dones:
            after = G.reach([m for m, _ in G.succ.get(d, [])])
            if any(x in after for x in nexts + vals):
                run.violation(f['qname'], 'signal-after-done', '%s:%s' % (f['file'], G.line(d)), 'after set_done the receiver can still get set_next or set_value')
            # the stop test precedes the chunk's set_next calls: every set_next in the stop-possible arm is dominated by a stop_requested test
        srs = [n for n, e in G.ev.items() if e.get('k') == 'call' and e['callee'].get('name') == 'stop_requested']
        for v in vals:
            if any(x in G.reach([m for m, _ in G.succ.get(v, [])]) for x in nexts):
                run.violation(f['qname'], 'next-after-value', '%s:%s' % (f['file'], G.line(v)), 'set_next can be called after set_value')
        if not srs:
            run.violation(f['qname'], 'no-stop-test', '%s:%s' % (f['file'], f['line']), 'bulk_schedule no longer tests for a stop request between chunks')


@rule('R-FINDIF-PUBLISH', ['C17'], floor=1)
def findif_publish(run, F):
    """parallel find_if: a chunk that finds a match records its position in its own per-chunk slot unconditionally (the result is the first non-end slot in chunk order); the store is not gated on having been the first finder in time, otherwise an earlier chunk finishing later loses its earlier match"""
    lam = [f for f in F.funcs if f.get('lambda') and f['file'] == 'include/unifex/find_if.hpp' and any(e['k'] == 'assign' and 'perChunkState' in e['lhs'] for _, _, e in events(f))]
    if not lam: raise Broken('per-chunk publication in find_if not found')
    for f in lam:
        G = Graph(f)
        for n, e in G.ev.items():
            if e.get('k') == 'assign' and 'perChunkState' in e['lhs']:
                run.inst(site(f, G.line(n)), 'per-chunk result stored unconditionally on a match', key=(f['fid'], G.line(n)))
                # not dominated by a branch on found_flag / an atomic exchange
                for t, te in G.ev.items():
                    if te.get('k') != 'term' or te.get('cond') is None: continue
                    if not any('found_flag' in p for p in expr_paths(te['cond'])): continue
                    for m, lab in G.succ.get(t, []):
                        if lab in (True, False) and n not in G.reach(G.entry, blocked_edges={(t, m)}):
                            run.violation(f['qname'], 'publish-gated-on-found_flag', '%s:%s' % (f['file'], G.line(n)),
                                          'a chunk stores its match only if found_flag was not yet set: when a later chunk finishes first, the earlier (correct) match is dropped and find_if returns a later element')
