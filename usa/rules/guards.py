"""R-GUARD — guards over snapshots of atomic state words, against a frozen table.

Lock-free protocols decide who may proceed by testing a value just read from (or exchanged with) an atomic
member: `if (ref_count(expected) == 0) return;`, `if (oldState == state::abandoned)`, `if (x.fetch_sub(1) == 1)`.
For every branch condition that mentions such a snapshot - a local initialised from load/exchange/fetch_*,
the `expected` argument of a compare-exchange, or the atomic call itself - the canonical atom (see
polarity.canon: negation, ==/!= and mirrored comparisons normalised) is computed with the snapshot variable
renamed to `$<member>` (so renaming a local is silent) and helper calls shown with their arguments
(`ref_count($parentOp_)`).  tables/guards.json freezes the set of atoms per class (file + record), so moving a
guard between member functions or classes of one algorithm (its detail namespace) is silent.

Violation: an atom of the frozen set no longer occurs anywhere in its class - the guard was dropped, or it now
tests a different quantity / constant (the replacing atoms are listed).  Additional guards are silent.  A class
of the table that no longer exists is analysis-broken.
"""
import collections, json, os, re, sys

from ..core import rule, Broken, VERIF
from ..facts import Graph, events, last_field, memorder
from .polarity import canon, norm_fn, file_props

TABLE = os.path.join(VERIF, 'tables', 'guards.json')
ATOM_OPS = {'load', 'exchange', 'fetch_add', 'fetch_sub', 'fetch_or', 'fetch_and', 'fetch_xor', 'compare_exchange_strong', 'compare_exchange_weak'}


def _snapshots(f):
    eid2, var2, ev_by_eid = {}, {}, {}
    for b, i, e in events(f):
        if e['k'] != 'call': continue
        ev_by_eid[e.get('eid')] = e
        if e['callee'].get('name') in ATOM_OPS and (memorder(e) or 'atomic' in (e['callee'].get('basetype', '') + e['callee'].get('qname', ''))):
            m = last_field(e['callee'].get('base') or '') or '?'
            eid2[e.get('eid')] = m
            if e['callee']['name'].startswith('compare_exchange') and e.get('args') and isinstance(e['args'][0], dict) and e['args'][0].get('op') == 'path':
                var2[e['args'][0]['p']] = m
    for b, i, e in events(f):
        if e['k'] == 'decl':
            for v in e['vars']:
                init = v.get('init') or {}
                if init.get('op') == 'call' and init.get('eid') in eid2: var2[v['var']] = eid2[init['eid']]
        if e['k'] == 'assign' and isinstance(e.get('rhs'), dict) and e['rhs'].get('op') == 'call' and e['rhs'].get('eid') in eid2:
            var2[e['lhs']] = eid2[e['rhs']['eid']]
    return var2, eid2, ev_by_eid


def _rename(x, var2, eid2, ev_by_eid, depth=0):
    if not isinstance(x, dict) or depth > 6: return x
    y = dict(x)
    if y.get('op') == 'path':
        p = y.get('p') or ''
        h = p.split('.')
        if h[0] in var2: y['p'] = '.'.join(['$' + var2[h[0]]] + h[1:])
    elif y.get('op') == 'call':
        if y.get('eid') in eid2:
            y = {'op': 'path', 'p': '$%s.%s' % (eid2[y['eid']], (y.get('p') or '').split('.')[-1])}
        elif y.get('eid') in ev_by_eid:
            ce = ev_by_eid[y['eid']]
            args = [_rename(a, var2, eid2, ev_by_eid, depth + 1) for a in ce.get('args', []) if isinstance(a, dict)]
            from .polarity import _s
            astr = ','.join(_s(a) for a in args)
            if '$' in astr:
                y = {'op': 'path', 'p': '%s(%s)' % ((ce['callee'].get('name') or '?').split('::')[-1], astr)}
    for k in ('l', 'r', 'e', 'c', 't', 'f'):
        if k in y: y[k] = _rename(y[k], var2, eid2, ev_by_eid, depth + 1)
    return y


def guard_atoms(F):
    """{(file, class): {atom: (fn, line)}}"""
    out = collections.defaultdict(dict)
    for f in F.funcs:
        if not f.get('blocks'): continue
        var2, eid2, ev_by_eid = _snapshots(f)
        if not var2 and not eid2: continue
        G = Graph(f)
        # key: the algorithm's detail namespace (family), so that a guard moved between the classes of one algorithm
        # (nested callback class -> operation class, helper extraction) is silent
        from ..facts import family_of
        cls = family_of(norm_fn(f.get('record') or (f.get('parent_fn') or '').split('@')[0].rsplit('::', 1)[0] or f['qname'].rsplit('::', 1)[0]))
        for t, e in G.ev.items():
            if e.get('k') != 'term' or e.get('cond') is None: continue
            if (e.get('macro') or '').startswith(('UNIFEX_ASSERT', 'assert')): continue
            a, _ = canon(_rename(e['cond'], var2, eid2, ev_by_eid))
            if '$' not in a or len(a) > 300: continue
            out[(f['file'], cls)].setdefault(a, (f['qname'], e.get('line') or f['line']))
    return out


def _check(run, F, prop, fp):
    with open(TABLE) as fh: rows = [r for r in json.load(fh)['rows'] if prop in fp.get(r['file'], ())]
    if not rows: raise Broken('no guard rows for ' + prop)
    cur = guard_atoms(F)
    for r in rows:
        if F.config not in r['configs']: continue
        k = (r['file'], r['cls'])
        want = set(r['atoms'].get(F.config) or r['atoms'].get('*') or [])
        if k not in cur:
            run.broke('class %s (%s) of the guard table has no guard over an atomic snapshot any more' % (r['cls'], r['file'])); continue
        have = set(cur[k])
        run.inst('%s %s' % (r['file'], r['cls']), '%d guards over atomic snapshots: %s' % (len(want), sorted(want)[:3]), key=k)
        missing = sorted(want - have); new = sorted(have - want)
        for a in missing:
            fn, line = next(iter(cur[k].values()))
            for b in new:
                fn, line = cur[k][b]; break
            run.violation(r['cls'], 'guard:' + a[:100], '%s:%s' % (r['file'], line),
                          'the guard `%s` over a snapshot of an atomic state word no longer occurs in %s%s: a completion/cancellation election is now decided by a different test (or by none)' % (
                              a, r['cls'].replace('unifex::', ''), (' - new guard(s) in its place: %s' % new[:3]) if new else ' (it was dropped)'))


def _mk(prop, floor, fp):
    rid = 'R-GUARD-' + prop
    @rule(rid, [prop], floor=floor)
    def r(run, F, prop=prop): _check(run, F, prop, fp)
    r.__doc__ = 'every branch condition over a snapshot of an atomic state word (value loaded/exchanged/fetched from an atomic member, or the expected value of a compare-exchange; snapshot locals renamed to the member, helper calls kept with their arguments, negation/==/!= normalised) that the frozen table tables/guards.json lists for a class of %s still occurs in that class: no election guard was dropped or now tests a different quantity or constant (added guards and guards moved between member functions are silent)' % prop
    from .. import core
    core.RULES[rid]['doc'] = r.__doc__


try:
    _fp = file_props()
    with open(TABLE) as _fh: _rows = json.load(_fh)['rows']
    _cnt = collections.defaultdict(collections.Counter)
    for _r in _rows:
        for _p in _fp.get(_r['file'], ()):
            for _c in _r['configs']: _cnt[_p][_c] += 1
    for _p, _cc in sorted(_cnt.items()): _mk(_p, min(_cc.get(_c, 0) for _c in ('d20', 'd17', 'r17', 'r20', 'v20')) // 2, _fp)
except FileNotFoundError:
    pass


def freeze():
    from .. import extract
    from ..facts import Facts
    cfgs = ['d20', 'd17', 'r17', 'r20', 'v20']
    files, _ = extract.extract(cfgs)
    per = {c: guard_atoms(Facts(files[c], c)) for c in cfgs}
    keys = sorted(set(k for c in cfgs for k in per[c]))
    rows = []
    for k in keys:
        cs = [c for c in cfgs if k in per[c]]
        sets = {c: sorted(per[c][k]) for c in cs}
        if len({tuple(v) for v in sets.values()}) == 1: atoms = {'*': sets[cs[0]]}
        else: atoms = sets
        rows.append(dict(file=k[0], cls=k[1], configs=cs, atoms=atoms))
    with open(TABLE, 'w') as fh: json.dump(dict(_doc='frozen guards over atomic snapshots; see usa/rules/guards.py', rows=rows), fh, indent=0)
    fp = file_props()
    print(len(rows), 'classes', sum(len(next(iter(r['atoms'].values()))) for r in rows), 'atoms; unowned:', sorted({r['file'] for r in rows if not fp.get(r['file'])}))


if __name__ == '__main__':
    if '--freeze' in sys.argv: freeze()
