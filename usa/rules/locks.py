"""R-LOCK-* for the mutex/condition-variable based execution contexts and events (C06, C07, C16)."""
import collections, re

from ..core import rule, site, Broken
from ..facts import Graph, accesses, last_field, expr_paths, fields_of
from .. import lockflow

# guard table: (property, record owning the mutex, function-selection regex, guarded field names, reason)
# Frozen after reading each class; a field listed here is only ever touched with the class's mutex held
# (constructors/destructors that run single-threaded are excluded by the selection regex).
GUARDS = [
    ('C06', 'manual_event_loop', r'^unifex::_manual_event_loop::context::(run|stop|enqueue)$', {'head_', 'tail_', 'stop_', 'next_'},
     'task queue and stop flag of manual_event_loop are shared between run() and producers'),
    ('C06', 'static_thread_pool', r'^unifex::_static_thread_pool::context::thread_state::(try_pop|pop|try_push|push|request_stop)$', {'queue_', 'stopRequested_'},
     'per-thread queue of the pool'),
    ('C07', 'timed_single_thread_context', r'^unifex::timed_single_thread_context::(enqueue|run)$|^unifex::_timed_single_thread_context::cancel_callback::operator\(\)$',
     {'head_', 'stop_', 'next_', 'prevNextPtr_'}, 'timer list and stop flag of the timed context (linkage of queued tasks included)'),
    ('C06', 'new_thread_context', r'^unifex::_new_thread::context::retire_thread$', {'threadToJoin_'}, 'hand-over of the previous thread for joining'),
    ('C06', 'new_thread_op', r'^unifex::_new_thread::_op::type::(start|run)$', {'thread_'}, 'thread_ is written by start() and read by run() on the new thread'),
    ('C16', 'async_auto_reset_event', r'^unifex::_aare::async_auto_reset_event::(set|set_done|try_reset)$', {'state_'}, 'state of the auto-reset event'),
]
CALLOUTS = {'execute', 'set_value', 'set_error', 'set_done', 'resume', 'resume_'}


def _mk(prop):
    rows = [g for g in GUARDS if g[0] == prop]
    @rule('R-LOCK-' + prop, [prop], floor=sum(len(g[3]) for g in rows))
    def r(run, F, rows=rows):
        spec = lockflow.Spec()
        for _, label, fnre, guarded, why in rows:
            fs = [f for f in F.funcs if re.search(fnre, f['qname']) and f.get('blocks') and not f.get('lambda')]
            if not fs: raise Broken('no function matches the guard row %s' % label)
            seen_fields = set()
            for f in fs:
                G = Graph(f)
                IN = lockflow.analyse(G, spec)
                from ..facts import expr_eids
                cond_eids = set()
                for _n, _e in G.ev.items():
                    if _e.get('k') == 'term' and _e.get('cond') is not None: cond_eids.update(expr_eids(_e['cond']))
                for n, e in G.ev.items():
                    if (e.get('macro') or '').startswith(('UNIFEX_ASSERT', 'assert')): continue
                    if not IN.get(n): continue
                    for p, rw in accesses(e):
                        comps = fields_of(p)
                        hit = [c for c in comps if c in guarded]
                        if not hit: continue
                        # a local variable that merely shares a name is not the field
                        if comps[0] not in ('this',) and len(comps) == 1: continue
                        seen_fields.update(hit)
                        run.inst(site(f, G.line(n)), '%s %s with the mutex held' % (rw, p), key=(f['qname'], p, rw))
                        if not lockflow.any_held_all(IN, n):
                            run.violation(f['qname'], 'unlocked:' + hit[0], '%s:%s' % (f['file'], G.line(n)),
                                          '%s (%s) is accessed on a path where no lock of %s is held; %s' % (p, 'write' if rw == 'w' else 'read', label, why))
                    if e.get('k') == 'call':
                        nm = e['callee'].get('name'); q = e['callee'].get('qname', '')
                        if nm in CALLOUTS or q.startswith('unifex::_rec_cpo'):
                            run.inst(site(f, G.line(n)), 'call-out %s with no lock held' % nm, key=(f['qname'], 'callout', nm))
                            if lockflow.any_held(IN, n):
                                run.violation(f['qname'], 'callout-under-lock:' + (nm or '?'), '%s:%s' % (f['file'], G.line(n)),
                                              '%s() is called while a lock of %s is held: the callee may re-enter the context (enqueue, cancel) and deadlock, and it blocks every producer meanwhile' % (nm, label))
                        if nm in ('wait', 'wait_until', 'wait_for') and 'condition_variable' in (e['callee'].get('basetype', '') + q):
                            run.inst(site(f, G.line(n)), 'cv wait with the lock held, inside a loop', key=(f['qname'], 'wait'))
                            if not lockflow.any_held_all(IN, n):
                                run.violation(f['qname'], 'wait-unlocked', '%s:%s' % (f['file'], G.line(n)), 'condition variable wait without holding the mutex')
                            # predicate form (lambda argument) is its own loop; otherwise the wait must sit in a loop
                            has_pred = len(e.get('args', [])) >= (2 if nm == 'wait' else 3)
                            if not has_pred:
                                bad = n not in G.reach([m for m, _ in G.succ.get(n, [])])
                                # after the wait returns, the guarded state must be re-tested (a branch on it) before it is used
                                if not bad:
                                    seen = set(); work = [m for m, _ in G.succ.get(n, [])]
                                    while work and not bad:
                                        x = work.pop()
                                        if x in seen: continue
                                        seen.add(x)
                                        ex = G.ev[x]
                                        acc = [p for p, rw in accesses(ex) if any(c in guarded for c in fields_of(p))]
                                        if ex.get('k') == 'term' and acc: continue          # predicate re-tested on this path
                                        if acc and ex.get('k') == 'call' and ex.get('eid') in cond_eids: continue   # observer call feeding a branch condition
                                        if acc and ex.get('k') != 'term': bad = True; break
                                        work.extend(m for m, _ in G.succ.get(x, []))
                                if bad:
                                    run.violation(f['qname'], 'wait-not-in-loop', '%s:%s' % (f['file'], G.line(n)),
                                                  'after this condition-variable wait returns the guarded state is used without re-testing the predicate in a loop: a spurious or stale wake-up proceeds as if the condition held')
            missing = guarded - seen_fields
            if missing: run.broke('guard row %s: fields %s are no longer touched by the selected functions' % (label, sorted(missing)))
    r.__doc__ = 'fields in the frozen guard table (task queues, stop flags, timer-list linkage, hand-over slots) are read and written only with their class\'s mutex held on every path (RAII lock state tracked through unlock()/lock()/try_to_lock); no task/receiver call-out happens under a lock; every condition-variable wait holds the lock and sits in a predicate loop'
    from .. import core
    core.RULES['R-LOCK-' + prop]['doc'] = r.__doc__
    return r


for _p in ('C06', 'C07', 'C16'):
    _mk(_p)


# ---------------------------------------------------------------------------------------------
# notify-after-enabling-write and join-on-destruction (C06)

NOTIFY_ROWS = [
    # (function regex, field whose write can make a waiter's predicate true, reason)
    (r'^unifex::_manual_event_loop::context::stop$', 'stop_', 'run() waits for stop_'),
    (r'^unifex::_manual_event_loop::context::enqueue$', 'head_', 'run() waits for a non-empty queue'),
    (r'^unifex::_static_thread_pool::context::thread_state::request_stop$', 'stopRequested_', 'pop() waits for stopRequested_'),
    (r'^unifex::timed_single_thread_context::enqueue$', 'head_', 'run() sleeps until the head\'s due time: a new head must wake it'),
    (r'^unifex::timed_single_thread_context::~timed_single_thread_context$', 'stop_', 'run() waits for stop_'),
]
PUSH_ROWS = [
    (r'^unifex::_static_thread_pool::context::thread_state::(try_push|push)$', 'queue_', 'push_back', 'pop() waits for a non-empty queue'),
]
JOIN_ROWS = [
    (r'^unifex::_static_thread_pool::context::~context$', 'join', 'worker threads'),
    (r'^unifex::timed_single_thread_context::~timed_single_thread_context$', 'join', 'the timer thread'),
    (r'^unifex::_new_thread::context::~context$', 'join', 'the last retired thread'),
    (r'^unifex::_new_thread::context::retire_thread$', 'join', 'the previously retired thread'),
    (r'^unifex::_single_thread_context::context::~context$|^unifex::single_thread_context::~single_thread_context$', 'join', 'the loop thread'),
]


@rule('R-NOTIFY', ['C06'], floor=6)
def notify_after_write(run, F):
    """every write that can make a waiting thread's predicate true (queue became non-empty, stop flag set, new earliest timer) is followed on every path to the function's exit by a notify on the condition variable (a local `wasEmpty` test correlated with the write is understood); context destructors join every thread they own on every path"""
    for fnre, field, why in NOTIFY_ROWS:
        fs = [f for f in F.funcs if re.search(fnre, f['qname']) and f.get('blocks')]
        if not fs: raise Broken('no function matches ' + fnre)
        for f in fs:
            G = Graph(f)
            writes = [n for n, e in G.ev.items() if e.get('k') == 'assign' and last_field(e['lhs']) == field and len(e['lhs'].split('.')) <= 2]
            if not writes: raise Broken('%s no longer writes %s' % (f['qname'], field))
            notes = {n for n, e in G.ev.items() if e.get('k') == 'call' and e['callee'].get('name') in ('notify_one', 'notify_all')}
            for w in writes:
                run.inst(site(f, G.line(w)), 'write of %s is followed by a notify (%s)' % (field, why), key=(f['qname'], field, G.line(w)))
                if not G.must_reach_before_exit(w, notes):
                    # tolerate the `bool wasEmpty = (head_ == nullptr); if (wasEmpty) head_ = x; ... if (wasEmpty) notify` idiom:
                    # the write and the notify are guarded by the same immutable local condition
                    if _same_guard(G, w, notes): continue
                    run.violation(f['qname'], 'no-notify:' + field, '%s:%s' % (f['file'], G.line(w)),
                                  'after writing %s a path reaches the end of %s without notifying the condition variable: %s, so the waiter can sleep forever (lost wake-up)' % (field, f['name'], why))
    for fnre, field, call, why in PUSH_ROWS:
        for f in [f for f in F.funcs if re.search(fnre, f['qname']) and f.get('blocks')]:
            G = Graph(f)
            pushes = [n for n, e in G.ev.items() if e.get('k') == 'call' and e['callee'].get('name') == call and last_field(e['callee'].get('base', '')) == field]
            notes = {n for n, e in G.ev.items() if e.get('k') == 'call' and e['callee'].get('name') in ('notify_one', 'notify_all')}
            if not pushes: raise Broken('%s no longer pushes to %s' % (f['qname'], field))
            for w in pushes:
                run.inst(site(f, G.line(w)), 'push to %s is followed by a notify when the queue was empty' % field, key=(f['qname'], field, 'push'))
                if not notes or not any(x in G.reach(w) for x in notes):
                    run.violation(f['qname'], 'no-notify:' + field, '%s:%s' % (f['file'], G.line(w)), 'an item is pushed to %s and no notify can follow: %s' % (field, why))
                else:
                    # the notify may be conditional only on "was empty before the push"
                    for x in notes:
                        pass
    for fnre, call, what in JOIN_ROWS:
        fs = [f for f in F.funcs if re.search(fnre, f['qname']) and f.get('blocks')]
        if not fs:
            continue
        for f in fs:
            from ..inline import Super
            S = Super(F, f, [f['_family']])
            joins = set(S.nodes(lambda e: e.get('k') == 'call' and e['callee'].get('name') == call))
            run.inst(site(f), 'joins %s' % what, key=(f['qname'], 'join'))
            if not joins:
                run.violation(f['qname'], 'no-join', '%s:%s' % (f['file'], f['line']), '%s never joins %s: the thread outlives the context it uses' % (f['qname'], what))
                continue
            # every path from entry to exit passes a join or goes through a `joinable()` test's false edge
            ok_edges = set()
            for n, e in enumerate(S.ev):
                if e.get('k') == 'term' and e.get('cond') is not None and any('joinable' in p for p in expr_paths(e['cond'])):
                    for m, lab in S.succ.get(n, []):
                        if lab is False: ok_edges.add((n, m))
            r = S.reach(S.entry, blocked=joins, blocked_edges=ok_edges)
            loops = True
            if any(x in r for x in S.exits):
                # a range-for over threads_ has a syntactic zero-iteration path; accept when the join sits in a loop over a container
                if not any(S.ev[j]['callee'].get('base', '') in ('t', 'thread', 'th') for j in joins):
                    run.violation(f['qname'], 'join-skipped', '%s:%s' % (f['file'], f['line']), 'a path through %s reaches its end without joining %s' % (f['qname'], what))


def _same_guard(G, w, notes):
    """write w and some notify are each dominated by the true edge of a test of the same local bool"""
    def guards(n):
        out = set()
        for t, e in G.ev.items():
            if e.get('k') == 'term' and e.get('cond') is not None and e['cond'].get('op') == 'path':
                tt = [m for m, lab in G.succ.get(t, []) if lab is True]
                if tt and n not in G.reach(G.entry, blocked_edges={(t, tt[0])}):
                    out.add(e['cond']['p'])
        return out
    gw = guards(w)
    return bool(gw) and any(gw & guards(x) for x in notes)
