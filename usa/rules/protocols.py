"""Component-specific protocol rules: small path/dominance facts about named mechanisms of one component
each (C06 drain-before-stop, C07 cancel sets due time, C08 scope reference outlives the completion,
C09 stale snapshot after a failed CAS, C15 v1 unlock and atomic list links, C16 cancel flags and DONE)."""
import re

from ..core import rule, site, Broken
from ..facts import Graph, events, last_field, expr_paths, expr_eids, accesses


def fn(F, q, need=True):
    fs = [f for f in F.by_q.get(q, []) if f.get('blocks') and not f.get('lambda')]
    if not fs:
        if need: raise Broken('anchor function %s not found' % q)
        return None
    return fs[0]


def edges_where(G, pred):
    """[(term node, succ, label)] for two-way terminators; pred(cond) -> label of the edge wanted (True/False) or None"""
    out = []
    for t, e in G.ev.items():
        if e.get('k') != 'term' or e.get('cond') is None: continue
        want = pred(e['cond'])
        if want is None: continue
        for m, lab in G.succ.get(t, []):
            if lab is want: out.append((t, m))
    return out


def dominated_by_edges(G, node, edges):
    return node not in G.reach(G.entry, blocked_edges=set(edges))


def truth_of_path(cond, pred, pol=True):
    """polarity with which a leaf path/call satisfying pred appears in (!)*leaf or leaf ==/!= null"""
    if not isinstance(cond, dict): return None
    if cond.get('op') in ('path', 'call') and pred(cond.get('p', '')): return pol
    if cond.get('op') == 'un' and cond.get('o') == '!': return truth_of_path(cond.get('e'), pred, not pol)
    if cond.get('op') == 'bin' and cond.get('o') in ('==', '!='):
        l, r = cond['l'], cond['r']
        for a, b in ((l, r), (r, l)):
            if b.get('p') in ('#null', '#0', '#false') and a.get('op') in ('path', 'call') and pred(a.get('p', '')):
                return (not pol) if cond['o'] == '==' else pol
    return None


# ------------------------------------------------------------------------------------------ C06
@rule('R-DRAIN', ['C06', 'C01'], floor=2)
def drain_before_stop(run, F):
    """a run loop that returns because stop was requested does so only when its queue is empty: every `return` taken on the stop flag is dominated by the queue-empty test, so items accepted before stop() are still executed (manual_event_loop::run, static_thread_pool's pop)"""
    rows = [('unifex::_manual_event_loop::context::run', 'stop_', lambda p: last_field(p) == 'head_', 'null-means-empty'),
            ('unifex::_static_thread_pool::context::thread_state::pop', 'stopRequested_', lambda p: p.endswith('queue_.empty()'), 'call-true-means-empty')]
    for q, flag, qpred, mode in rows:
        f = fn(F, q); G = Graph(f)
        # edges on which the queue is known empty
        def pe(c):
            t = truth_of_path(c, qpred)
            if t is None: return None
            return (not t) if mode == 'null-means-empty' else t
        empty_edges = edges_where(G, pe)
        stop_edges = edges_where(G, lambda c: truth_of_path(c, lambda p: last_field(p) == flag))
        if not stop_edges: raise Broken('%s no longer tests %s' % (q, flag))
        for t, m in stop_edges:
            rets = [n for n in G.reach(m) if G.ev[n].get('k') == 'ret' and G.dominated_by_any(n, {m})]
            for n in rets:
                run.inst(site(f, G.line(n)), 'return on %s only with an empty queue' % flag, key=(q, G.line(t)))
                if not dominated_by_edges(G, n, empty_edges):
                    run.violation(q, 'stop-abandons-queue', '%s:%s' % (f['file'], G.line(n)),
                                  '%s can return because %s is set while items are still queued: work accepted before stop() is silently dropped and its operations never complete' % (f['name'], flag))


# ------------------------------------------------------------------------------------------ C07
@rule('R-CANCEL-TIMER', ['C07', 'C04'], floor=2)
def cancel_sets_due_time(run, F):
    """the cancel callback of a timer operation brings the due time forward to `now` on every path on which the timer has not expired yet (whether or not the operation is already queued), so a stop requested before start() or before enqueue still completes the operation promptly with done"""
    for q in ('unifex::_timed_single_thread_context::cancel_callback::operator()', 'unifex::_thread_unsafe_event_loop::cancel_callback::operator()'):
        f = fn(F, q); G = Graph(f)
        early = edges_where(G, lambda c: True if (c.get('op') == 'bin' and c.get('o') == '<' and 'now' in expr_paths(c.get('l')) and any(last_field(p) == 'dueTime_' for p in expr_paths(c.get('r')))) else None)
        if not early: raise Broken('%s no longer compares now < dueTime_' % q)
        t, m = early[0]
        writes = {n for n, e in G.ev.items() if e.get('k') == 'assign' and last_field(e['lhs']) == 'dueTime_' and 'now' in expr_paths(e.get('rhs'))}
        run.inst(site(f, G.line(t)), 'dueTime_ = now on every not-yet-due path', key=q)
        ok = bool(writes)
        if ok and m not in writes:
            seen = set(); work = [m]
            while work and ok:
                x = work.pop()
                if x in seen or x in writes: continue
                seen.add(x)
                if x == G.exit or G.ev[x].get('k') == 'ret': ok = False; break
                work.extend(y for y, lab in G.succ.get(x, []) if lab != 'exc')
        if not ok:
            run.violation(q, 'cancel-keeps-due-time', '%s:%s' % (f['file'], G.line(t)),
                          'a path through the cancel callback leaves dueTime_ in the future although stop was requested (e.g. when the operation is not queued yet): the operation then waits for its original due time instead of completing with done')


# ------------------------------------------------------------------------------------------ C08
@rule('R-SCOPE-REF', ['C08', 'C09'], floor=1)
def scope_ref_outlives_completion(run, F):
    """a nested operation's reference on its async_scope is released only after its completion has been delivered: in the nest receiver the scope reference is moved into a local that lives until the function returns, and the member is not reset/reassigned before the completion call — otherwise join() can complete while nested work is still running"""
    cands = [f for f in F.funcs if f['name'] == 'complete' and f.get('record', '').startswith('unifex::v2::_async_scope::_nest_receiver') and f.get('blocks')]
    if not cands: raise Broken('v2 nest receiver complete() not found')
    for f in cands:
        G = Graph(f)
        comp = [n for n, e in G.ev.items() if e.get('k') == 'call' and e['callee'].get('kind') in ('localvar', 'expr') and e['callee'].get('name') == (f['params'][0]['name'] if f.get('params') else 'func')]
        if not comp: raise Broken('completion call not found in nest receiver complete()')
        c = comp[0]
        keep = [n for n, e in G.ev.items() if e.get('k') == 'decl' and any(any(last_field(p) == 'scope_' for p in expr_paths(v.get('init'))) for v in e['vars'])]
        run.inst(site(f), 'scope reference held in a local across the completion', key='nest-complete')
        if not keep or not G.dominated_by_any(c, set(keep)):
            run.violation(f['qname'], 'scope-ref-not-held', '%s:%s' % (f['file'], G.line(c)), 'the completion is delivered without a local strong reference on the scope: the scope can be joined and destroyed while the nested operation is still completing')
        var = None
        for n in keep:
            for v in G.ev[n]['vars']: var = v['var']
        ends = [n for n, e in G.ev.items() if e.get('k') in ('scope_end', 'autodtor') and e.get('var') == var]
        early = [n for n in ends if c in G.reach(n)]
        resets = [n for n, e in G.ev.items() if (e.get('k') == 'assign' and last_field(e['lhs']) == 'scope_') or (e.get('k') == 'call' and e['callee'].get('name') in ('reset', 'operator=') and last_field(e['callee'].get('base', '')) in ('scope_', var or '?'))]
        bad = [n for n in resets if c in G.reach(n)] + early
        if bad:
            run.violation(f['qname'], 'scope-ref-released-early', '%s:%s' % (f['file'], G.line(bad[0])), 'the scope reference is released before the nested operation\'s completion is delivered: join() may complete (and the scope be destroyed) while nested work is still running')


# ------------------------------------------------------------------------------------------ C09 (generic)
@rule('R-CAS-STALE', ['C09', 'C13', 'C19', 'C08'], floor=10)
def cas_stale_snapshot(run, F):
    """after a compare_exchange fails, code does not go on using an older snapshot of the same atomic held in a different local: the failed CAS stored the current value in its `expected` argument, any other local loaded earlier is stale (a state machine acting on it frees, skips or double-handles the wrong thing)"""
    for f in F.funcs:
        if not f.get('blocks'): continue
        cas = [(b, i, e) for b, i, e in events(f) if e['k'] == 'call' and e['callee'].get('name') in ('compare_exchange_strong', 'compare_exchange_weak') and e.get('args')]
        if not cas: continue
        G = Graph(f)
        # locals initialised/assigned from a load of member M
        snap = {}
        for n, e in G.ev.items():
            if e.get('k') == 'decl':
                for v in e['vars']:
                    init = v.get('init') or {}
                    if init.get('op') == 'call' and re.search(r'\.load\(\)$', init.get('p', '')):
                        snap[v['var']] = last_field(init['p'][:-len('.load()')])
        for b, i, e in cas:
            node = (b['id'], i)
            M = last_field(e['callee'].get('base', ''))
            exp = e['args'][0].get('p') if isinstance(e['args'][0], dict) else None
            if not exp or '.' in exp: continue
            stale = {v for v, m in snap.items() if m == M and v != exp}
            run.inst(site(f, e['line']), 'failed CAS on %s: only `%s` is used afterwards' % (M, exp), nontrivial=bool(stale), key=(f['qname'], M, e['line']))
            if not stale: continue
            # failure edge(s) of the test on this CAS
            from ..lockflow import _truth_of_call
            for t, tt, tf in G.branch_edges(lambda x: e['eid'] in expr_eids(x['cond'])):
                pol = _truth_of_call(G.ev[t]['cond'], e['eid'])
                if pol is None: continue
                fail = tf if pol else tt
                if fail is None: continue
                for x in sorted(G.reach(fail)):
                    ex = G.ev[x]
                    if (ex.get('macro') or '').startswith(('UNIFEX_ASSERT', 'assert')): continue
                    if ex.get('k') == 'assign' and ex['lhs'] in stale: stale = stale - {ex['lhs']}; continue
                    used = [p for p, rw in accesses(ex) if p in stale and rw == 'r']
                    if used:
                        run.violation(f['qname'], 'stale-after-cas:' + used[0], '%s:%s' % (f['file'], G.line(x)),
                                      'after the compare_exchange on %s failed (it wrote the current value into `%s`), `%s` — an earlier snapshot of the same atomic — is still used: the code acts on a state that is no longer true' % (M, exp, used[0]))
                        break


# ------------------------------------------------------------------------------------------ C15
@rule('R-V1MUTEX', ['C15'], floor=2)
def v1_mutex_unlock(run, F):
    """v1 async_mutex::unlock(): the lock-free inbox is only polled (and possibly marked inactive = unlocked) when no already-dequeued waiter is pending; otherwise marking it inactive while handing the lock to a pending waiter lets a third party acquire the mutex concurrently; exactly one waiter is resumed per unlock"""
    f = fn(F, 'unifex::v1::async_mutex::unlock', need=False) or fn(F, 'unifex::async_mutex::unlock')
    G = Graph(f)
    polls = [n for n, e in G.ev.items() if e.get('k') == 'call' and e['callee'].get('name') == 'try_mark_inactive_or_dequeue_all']
    if not polls: raise Broken('unlock() no longer polls the inbox')
    empty_edges = edges_where(G, lambda c: truth_of_path(c, lambda p: p.endswith('pendingQueue_.empty()')))
    run.inst(site(f), 'inbox polled only when pendingQueue_ is empty', key='poll')
    for n in polls:
        if not empty_edges or not dominated_by_edges(G, n, empty_edges):
            run.violation(f['qname'], 'inbox-polled-with-pending', '%s:%s' % (f['file'], G.line(n)),
                          'unlock() calls try_mark_inactive_or_dequeue_all() although waiters may already be pending: an empty inbox is then marked inactive (mutex unlocked) while the lock is also handed to a pending waiter — two holders')
    res = [n for n, e in G.ev.items() if e.get('k') == 'call' and e['callee'].get('name') == 'resume_']
    run.inst(site(f), 'one waiter resumed', key='resume')
    if len(res) != 1:
        run.violation(f['qname'], 'resume-count', '%s:%s' % (f['file'], f['line']), 'unlock() must resume exactly one waiter (found %d resume_ calls)' % len(res))


@rule('R-ALIST-LINK', ['C15', 'C16'], floor=2)
def atomic_list_links(run, F):
    """atomic_intrusive_list: whenever an operation publishes a link value that designates node N (unlock(link, value-of-N)), N's `self` back pointer was set to that same link on the path (pop_front, try_remove, push_back, drain): a node whose `self` points at a different link is later unlinked from the wrong place and waiters ahead of it are lost"""
    fs = [f for f in F.funcs if f['file'] == 'source/atomic_intrusive_list.cpp' and f.get('blocks') and not f.get('lambda')]
    if len(fs) < 6: raise Broken('atomic_intrusive_list.cpp functions not found')
    def base(x):
        # strip & and * wrappers -> underlying path
        while isinstance(x, dict) and x.get('op') == 'un' and x.get('o') in ('&', '*'): x = x['e']
        return x.get('p') if isinstance(x, dict) else None
    for f in fs:
        G = Graph(f)
        val2node = {}
        for n, e in G.ev.items():
            if e.get('k') == 'decl':
                for v in e['vars']:
                    init = v.get('init') or {}
                    m = re.match(r'.*to_node\(\)$', init.get('p', '') or '')
                    if init.get('op') == 'call' and m:
                        # argument of to_node: find the call event
                        for n2, e2 in G.ev.items():
                            if e2.get('k') == 'call' and e2.get('eid') == init.get('eid') and e2.get('args'):
                                a = base(e2['args'][0])
                                if a: val2node[a] = v['var']
        for n, e in G.ev.items():
            if e.get('k') != 'call' or e['callee'].get('name') != 'unlock' or len(e.get('args', [])) < 2: continue
            link = base(e['args'][0]); val = base(e['args'][1])
            if val not in val2node: continue
            N = val2node[val]
            stores = [(n2, e2) for n2, e2 in G.ev.items() if e2.get('k') == 'call' and e2['callee'].get('name') == 'store' and e2['callee'].get('base') == N + '.self' and n in G.reach(n2)]
            if not stores: continue
            run.inst(site(f, e['line']), 'unlock(%s, %s): %s.self points at %s' % (link, val, N, link), key=(f['qname'], link, val))
            if not any(base(e2['args'][0]) == link for n2, e2 in stores if e2.get('args')):
                n2, e2 = stores[-1]
                run.violation(f['qname'], 'alist-self-mismatch:' + N, '%s:%s' % (f['file'], e2['line']),
                              'node %s is published in link %s but its self back-pointer is set to %s: a later removal of %s (cancellation) or pop will operate on the wrong link and drop other waiters' % (N, link, base(e2['args'][0]), N))


# ------------------------------------------------------------------------------------------ C16
@rule('R-STOP-WRITES', ['C16', 'C15', 'C19'], floor=3)
def stop_hook_writes_after_election(run, F):
    """in the stop() hook of a cancellable operation (async_pass call/throw/accept, v2 mutex/event waits) every write to the operation's members happens only after the hook has won an election (the un-park CAS, try_remove from the wait list, or try_complete) or when the operation was never started: before that the operation may concurrently be claimed and completed by its counterpart, and a flag such as cancelled_ set too early turns a successful rendezvous into done"""
    n = 0
    for f in F.funcs:
        if f['name'] != 'stop' or not f.get('blocks') or f.get('lambda'): continue
        G = Graph(f)
        tc = [x for x, e in G.ev.items() if e.get('k') == 'call' and e['callee'].get('name') == 'try_complete']
        if not tc: continue
        win = []
        elect = [x for x, e in G.ev.items() if e.get('k') == 'call' and e['callee'].get('name') in ('try_complete', 'try_remove', 'compare_exchange_strong')]
        for x in elect:
            e = G.ev[x]
            from ..lockflow import _truth_of_call
            for t, tt, tf in G.branch_edges(lambda c: e['eid'] in expr_eids(c['cond'])):
                pol = _truth_of_call(G.ev[t]['cond'], e['eid'])
                if pol is not None and (tt if pol else tf) is not None: win.append((t, tt if pol else tf))
        # an operation that was never started cannot be claimed by anyone else
        win += edges_where(G, lambda c: (lambda tp: None if tp is None else (not tp))(truth_of_path(c, lambda p: last_field(p) == 'started_')))
        if not win: continue
        n += 1
        for x, e in G.ev.items():
            if e.get('k') == 'assign' and (e['lhs'].startswith('this.') and len(e['lhs'].split('.')) == 2):
                run.inst(site(f, G.line(x)), 'write to %s only after winning try_complete' % e['lhs'], key=(f['qname'], e['lhs']))
                if not dominated_by_edges(G, x, win):
                    run.violation(f['qname'], 'write-before-election:' + last_field(e['lhs']), '%s:%s' % (f['file'], G.line(x)),
                                  '%s is written in stop() before the hook has won its election (CAS / try_remove / try_complete): the operation may at the same time be claimed by its counterpart, which then observes the cancellation flag and completes it with done although the payload was transferred' % e['lhs'])
        run.inst(site(f), 'stop() hook decided by try_complete', key=(f['qname'], 'hook'))
    if n == 0: raise Broken('no stop() hook using try_complete found')


@rule('R-AARE-DONE', ['C16', 'C13'], floor=2)
def auto_reset_done_absorbing(run, F):
    """async_auto_reset_event: DONE is absorbing — state_ is only overwritten under a test that it is not DONE (set) or is SET (try_reset), and the underlying manual-reset event is reset only on the SET -> UNSET transition, never once the state is DONE (later next() calls must keep completing with done instead of parking forever)"""
    f = fn(F, 'unifex::_aare::async_auto_reset_event::try_reset'); G = Graph(f)
    set_edges = edges_where(G, lambda c: True if (c.get('op') == 'bin' and c.get('o') == '==' and any(last_field(p) == 'state_' for p in expr_paths(c)) and any(p.endswith('SET') and not p.endswith('UNSET') for p in expr_paths(c))) else None)
    resets = [n for n, e in G.ev.items() if e.get('k') == 'call' and e['callee'].get('name') == 'reset' and last_field(e['callee'].get('base', '')) == 'event_']
    if not resets: raise Broken('try_reset() no longer resets the event')
    run.inst(site(f), 'event_.reset() only on the SET -> UNSET transition', key='try_reset')
    for n in resets:
        if not set_edges or not dominated_by_edges(G, n, set_edges):
            run.violation(f['qname'], 'reset-when-done', '%s:%s' % (f['file'], G.line(n)), 'the underlying event is reset although the auto-reset event may be DONE: the next next() parks forever instead of completing with done')
    f2 = fn(F, 'unifex::_aare::async_auto_reset_event::set'); G2 = Graph(f2)
    notdone = edges_where(G2, lambda c: True if (c.get('op') == 'bin' and c.get('o') == '!=' and any(p.endswith('DONE') for p in expr_paths(c))) else (False if (c.get('op') == 'bin' and c.get('o') == '==' and any(p.endswith('DONE') for p in expr_paths(c))) else None))
    ws = [n for n, e in G2.ev.items() if e.get('k') == 'assign' and last_field(e['lhs']) == 'state_']
    run.inst(site(f2), 'set() does not overwrite DONE', key='set')
    for n in ws:
        if not notdone or not dominated_by_edges(G2, n, notdone):
            run.violation(f2['qname'], 'done-overwritten', '%s:%s' % (f2['file'], G2.line(n)), 'set() overwrites state_ without testing for DONE: a finished event stream becomes live again')


# ------------------------------------------------------------------------------------------ C07 (ordering)
@rule('R-CB-AFTER-INIT', ['C07', 'C04', 'C02'], floor=3)
def callback_registered_after_state_init(run, F):
    """an operation's stop callback is registered only after every member the callback body *writes* has received its start-time value: in start() no assignment to such a member follows the callback's construction on any path (a stop that was already requested runs the callback inline during registration; a later assignment would overwrite what the callback did, e.g. the brought-forward due time)"""
    from ..inline import Super, TooBig
    from .dereg import registrations, CONSTRUCT, _targets
    gcache = {}
    n = 0
    for rec, fl in registrations(F):
        M = fl['name']
        # functions of this record that construct the callback
        for f in F.by_record.get(rec['qname'], []):
            if not f.get('blocks') or f.get('lambda') or f.get('ctor'): continue
            G = Graph(f)
            cons = [x for x, e in G.ev.items() if e.get('k') == 'call' and e['callee'].get('name') in CONSTRUCT and _targets(e, M)]
            if not cons: continue
            # the callback class: a family record whose operator() writes members of the operation through a stored pointer/reference
            cb_written = set()
            for g in F.by_family.get(f['_family'], []):
                if g['name'] != 'operator()' or g.get('lambda') or not g.get('blocks'): continue
                if 'callback' not in (g.get('record') or '').lower(): continue
                try: S = Super(F, g, [f['_family']], graph_cache=gcache, maxdepth=2)
                except TooBig: continue
                for i, e in enumerate(S.ev):
                    if e.get('k') == 'assign' and S.fn[i] is g and len(e['lhs'].split('.')) >= 2 and not e.get('deref'):
                        cb_written.add(last_field(e['lhs']))
            if not cb_written: continue
            n += 1
            for c in cons:
                run.inst(site(f, G.line(c)), 'no write to %s after registering %s' % (sorted(cb_written), M), key=(f['qname'], M))
                for x in G.reach([m for m, lab in G.succ.get(c, []) if lab != 'exc']):
                    e = G.ev[x]
                    if e.get('k') == 'assign' and e['lhs'].split('.')[0] == 'this' and last_field(e['lhs']) in cb_written and len(e['lhs'].split('.')) == 2:
                        run.violation(f['qname'], 'write-after-registration:' + last_field(e['lhs']), '%s:%s' % (f['file'], G.line(x)),
                                      '%s is assigned after the stop callback %s was registered; the callback (which also writes it) may already have run inline because stop was requested before start(), and this assignment then undoes its effect' % (e['lhs'], M))
    if n == 0: raise Broken('no operation found whose stop callback writes operation members')


# ------------------------------------------------------------------------------------------ small component rules
@rule('R-AMRE-LOOP', ['C16', 'C08', 'C09'], floor=1)
def amre_start_or_wait(run, F):
    """v1 async_manual_reset_event::start_or_wait: the "already signalled?" test is re-evaluated on every iteration of the CAS retry loop (a set() that lands between the load and the CAS makes the CAS fail and reload the signalled state; pushing the waiter on top of it would strand it — scope joins wait on this event)"""
    f = fn(F, 'unifex::_amre::async_manual_reset_event::start_or_wait')
    G = Graph(f)
    cas = [n for n, e in G.ev.items() if e.get('k') == 'call' and e['callee'].get('name') in ('compare_exchange_weak', 'compare_exchange_strong')]
    # the snapshot of the state word is the local passed as `expected` to the CAS (its name is free); the "already
    # signalled?" test is the ==/!= comparison of that snapshot
    snaps = {G.ev[c]['args'][0].get('p') for c in cas if G.ev[c].get('args') and isinstance(G.ev[c]['args'][0], dict) and G.ev[c]['args'][0].get('op') == 'path'}
    tests = [t for t, e in G.ev.items() if e.get('k') == 'term' and e.get('cond') is not None and e['cond'].get('op') == 'bin' and e['cond'].get('o') in ('==', '!=')
             and snaps & set(expr_paths(e['cond']))]
    if not cas or not tests: raise Broken('start_or_wait: CAS loop or signalled test not found')
    run.inst(site(f), 'signalled test inside the CAS retry loop', key='amre-loop')
    for c in cas:
        # from the CAS a retry path must lead back to the CAS through the signalled test
        back = G.reach([m for m, _ in G.succ.get(c, [])])
        if c not in back:
            run.violation(f['qname'], 'cas-not-in-loop', '%s:%s' % (f['file'], G.line(c)), 'the CAS pushing the waiter is not retried'); continue
        if c in G.reach([m for m, _ in G.succ.get(c, [])], blocked=set(tests)):
            run.violation(f['qname'], 'signalled-test-hoisted', '%s:%s' % (f['file'], G.line(c)),
                          'the CAS retry loop can go round without re-testing whether the event has become signalled: a set() racing with the push leaves the waiter queued on a signalled event, and it is never resumed')


@rule('R-FUSED-DEREG', ['C03', 'C04'], floor=2)
def fused_deregister(run, F):
    """fused_stop_source::deregister_callbacks() and the token adapters' unsubscribe() destroy their upstream callbacks unconditionally (on every path): once deregistration has returned no upstream stop request may reach the source any more, whatever its own stop state"""
    rows = [('unifex::_fss::fused_stop_source::deregister_callbacks', {'reset', 'destruct'}, 'callbacks_'),
            ('unifex::inplace_stop_token_adapter::unsubscribe', {'destruct', 'reset'}, 'callback_')]
    for q, names, member in rows:
        f = fn(F, q); G = Graph(f)
        posts = {n for n, e in G.ev.items() if e.get('k') == 'call' and e['callee'].get('name') in names and last_field(e['callee'].get('base', '')) == member}
        run.inst(site(f), '%s destroyed on every path' % member, key=q)
        if not posts or not G.must_reach_before_exit(G.entry, posts) and G.entry not in posts:
            run.violation(q, 'conditional-deregistration', '%s:%s' % (f['file'], f['line']),
                          '%s does not destroy %s on every path: after it returns an upstream callback can still be registered and run (a stop request reaching a source whose user already deregistered)' % (q.replace('unifex::', ''), member))


@rule('R-QUEUE-POP', ['C06', 'C01'], floor=2)
def queue_pop_advances(run, F):
    """run loops that pop the head of a singly linked intrusive queue advance the head to the popped item's successor (`head_ = item->next_`): assigning anything else drops every item queued behind it (trampoline drain, manual_event_loop run)"""
    rows = [('unifex::_trampoline::scheduler::trampoline_state::drain', 'head_', 'next_'),
            ('unifex::_manual_event_loop::context::run', 'head_', 'next_')]
    for q, head, nxt in rows:
        f = fn(F, q); G = Graph(f)
        ws = [(n, e) for n, e in G.ev.items() if e.get('k') == 'assign' and e['lhs'] == 'this.' + head]
        xs = [n for n, e in G.ev.items() if e.get('k') == 'call' and e['callee'].get('name') == 'exchange' and e.get('args') and last_field(e['args'][0].get('p', '')) == head]
        if not ws and not xs: raise Broken('%s no longer assigns or exchanges %s' % (q, head))
        for n, e in ws:
            run.inst(site(f, G.line(n)), '%s advanced to the popped item\'s %s' % (head, nxt), key=(q, G.line(n)))
            ps = expr_paths(e.get('rhs'))
            if not (len(ps) == 1 and last_field(ps[0]) == nxt and (e.get('rhs') or {}).get('op') == 'path'):
                run.violation(q, 'pop-does-not-advance', '%s:%s' % (f['file'], G.line(n)),
                              'after popping, %s is set to %s instead of the popped item\'s %s: items queued behind the popped one are unlinked and never run' % (head, ps or 'a non-path value', nxt))
        # a pop through std::exchange(head_, X)
        for n, e in G.ev.items():
            if e.get('k') == 'call' and e['callee'].get('name') == 'exchange' and e.get('args') and last_field(e['args'][0].get('p', '')) == head:
                a1 = e['args'][1] if len(e['args']) > 1 else {}
                run.inst(site(f, G.line(n)), 'exchange of %s' % head, key=(q, 'xchg', G.line(n)))
                if not (a1.get('op') == 'path' and last_field(a1.get('p', '')) == nxt):
                    run.violation(q, 'pop-does-not-advance', '%s:%s' % (f['file'], G.line(n)),
                                  '%s is exchanged with %s instead of the popped item\'s %s: the rest of the queue is dropped' % (head, a1.get('p'), nxt))


@rule('R-CANCEL-FLAG', ['C15', 'C16', 'C19'], floor=2)
def cancel_flag_before_forward(run, F):
    """operations whose forward_set_value() chooses done over value by a `cancelled_` member (v2 async_mutex lock, async_pass call/throw): in stop(), every path that starts the completion forwarder first sets that flag - otherwise a cancelled waiter that never owned the lock (or whose payload was never transferred) completes with value"""
    n = 0
    for r in F.recs:
        flds = {fl['name'] for fl in r['fields']}
        if 'cancelled_' not in flds: continue
        fwd = [fl['name'] for fl in r['fields'] if 'completion_forwarder' in ((fl.get('wtype') or '') + fl.get('type', ''))]
        if not fwd: continue
        stops = [g for g in F.by_record.get(r['qname'], []) if g['name'] == 'stop' and g.get('blocks')]
        for g in stops:
            G = Graph(g)
            starts = [m for m, e in G.ev.items() if e.get('k') == 'call' and e['callee'].get('name') == 'start' and last_field(e['callee'].get('base') or '') in fwd]
            sets = {m for m, e in G.ev.items() if e.get('k') == 'assign' and last_field(e.get('lhs') or '') == 'cancelled_' and (e.get('rhs') or {}).get('p') == '#true'}
            for m in starts:
                n += 1
                run.inst(site(g, G.line(m)), 'forwarder started in stop() only after cancelled_ = true', key=(r['qname'], G.line(m)))
                if not G.dominated_by_any(m, sets):
                    run.violation(g['qname'], 'forward-without-cancel-flag', '%s:%s' % (g['file'], G.line(m)),
                                  'stop() of %s starts its completion forwarder on a path that has not set cancelled_: forward_set_value() then delivers set_value for an operation that was cancelled (a lock waiter that never owned the mutex completes as its owner)' % r['qname'].replace('unifex::', ''))
    if n == 0: raise Broken('no stop() hook with a cancelled_ flag and a completion forwarder found')


@rule('R-ADAPTER-RAII', ['C03', 'C18', 'C04', 'C10', 'C12'], floor=1)
def adapter_unsubscribed_by_destructor(run, F):
    """every class that holds a raw `inplace_stop_token_adapter<...>` (whose upstream callback is registered by subscribe() and removed only by unsubscribe()) unsubscribes it in its destructor - as the RAII wrapper `inplace_stop_token_adapter_subscription` and task's awaiter do: an operation state that is destroyed without completing (never started, or connect of the wrapped sender threw) must not leave the forwarding callback registered on the consumer's stop token"""
    n = 0
    for r in F.recs:
        for fl in r['fields']:
            t = (fl.get('wtype') or '') + ' ' + (fl.get('type') or '')
            if 'inplace_stop_token_adapter<' not in t or 'inplace_stop_token_adapter_subscription' in t or fl.get('static'): continue
            n += 1
            run.inst('%s:%s %s' % (r['file'], fl.get('line') or r['line'], r['qname']), 'destructor unsubscribes %s' % fl['name'], key=(r['qname'], fl['name']))
            ds = [g for g in F.by_record.get(r['qname'], []) if g.get('dtor') and g.get('blocks')]
            def unsub(g, depth=0):
                for _, _, e in events(g):
                    if e['k'] != 'call': continue
                    b = e['callee'].get('base') or ''
                    if e['callee'].get('name') == 'unsubscribe' and last_field(b) == fl['name']: return True
                    if depth < 2 and b in ('', 'this'):          # a member function of the same class called by the destructor
                        for h in F.by_record.get(r['qname'], []):
                            if h['name'] == e['callee'].get('name') and h.get('blocks') and h is not g and unsub(h, depth + 1): return True
                return False
            ok = any(unsub(d) for d in ds)
            if not ok:
                run.violation(r['qname'], 'adapter-not-unsubscribed:' + fl['name'], '%s:%s' % (r['file'], fl.get('line') or r['line']),
                              '%s holds the raw stop-token adapter `%s` but its destructor never calls %s.unsubscribe(): when the object is destroyed without having completed (never started, connect threw) the forwarding callback stays registered on the upstream token and a later request_stop() runs it on a dead object' % (
                                  r['qname'].replace('unifex::', ''), fl['name'], fl['name']))
    if n == 0: raise Broken('no holder of a raw inplace_stop_token_adapter found')
