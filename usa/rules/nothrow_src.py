"""R-NOTHROW-SRC — a nothrow-construction trait consulted inside a forwarding function speaks about the
construction that is actually performed.

In a function template with a forwarding-reference parameter `P&& p` (P a template parameter of the function
itself, also packs), the object built from `p` is constructed from `P&&`: a copy when the caller passes an
lvalue, a move for an rvalue.  A trait in that function's noexcept specification or in one of its branch
conditions that asks instead about

  (1) `is_nothrow_constructible<X, ..decay_t<P>/remove_cvref_t<P>/remove_reference_t<P>..>` - a source type with
      the reference/cv stripped (always an rvalue of the decayed type, i.e. the move), or
  (2) `is_nothrow_move_constructible<D>` / `is_nothrow_copy_constructible<D>` with D = decay_t<P> / remove_cvref_t<P>
      (directly or through a local alias `using value_type = remove_cvref_t<P>`)

answers for a different constructor than the one that runs: for a type whose move is noexcept and whose copy
throws, the unprotected path is taken (or noexcept(true) is promised) and the exception becomes std::terminate,
or an already destroyed object is destroyed again by the recovery path that was skipped.
The honest spelling, used everywhere else in the tree, is `is_nothrow_constructible_v<remove_cvref_t<P>, P>`.
"""
import re

from ..core import rule, site, Broken
from ..facts import events

STRIP = r'(?:std::)?(?:decay_t|remove_cvref_t|remove_reference_t|decay|remove_cvref)'


def _split_args(s):
    out, depth, cur = [], 0, ''
    for ch in s:
        if ch in '<([': depth += 1
        elif ch in '>)]': depth -= 1
        if ch == ',' and depth == 0: out.append(cur.strip()); cur = ''
        else: cur += ch
    if cur.strip(): out.append(cur.strip())
    return out


def _traits(text):
    """[(trait name, [args])] for every is_nothrow_*constructible<...> in text"""
    out = []
    for m in re.finditer(r'is_nothrow_(move_|copy_)?constructible(?:_v)?\s*<', text):
        i = m.end(); depth = 1; j = i
        while j < len(text) and depth:
            if text[j] in '<(': depth += 1
            elif text[j] in '>)': depth -= 1
            j += 1
        out.append(((m.group(1) or '') + 'constructible', _split_args(text[i:j - 1])))
    return out


def _strips(arg, P, aliases):
    """does type expression `arg` denote P with reference/cv stripped?"""
    a = re.sub(r'\s+', '', arg).rstrip('.')
    if re.fullmatch(STRIP + r'<%s>(::type)?' % re.escape(P), a): return True
    if a in aliases and re.fullmatch(STRIP + r'<%s>(::type)?' % re.escape(P), re.sub(r'\s+', '', aliases[a])): return True
    return False


@rule('R-NOTHROW-SRC', ['C05', 'C18', 'C10', 'C02'], floor=40)
def nothrow_src(run, F):
    """in every function template with a forwarding-reference parameter P&& (also packs), each is_nothrow_constructible / is_nothrow_move_constructible / is_nothrow_copy_constructible trait in its noexcept specification or branch conditions names the source type that is actually forwarded (P), not P with its reference stripped (decay_t<P>, remove_cvref_t<P>, a local alias of these): otherwise the trait answers for the move while an lvalue argument is copied, and a throwing copy reaches an unprotected path (std::terminate, or double destruction in the skipped recovery path)"""
    n = 0
    for f in F.funcs:
        tps = f.get('tparams')
        if not tps: continue
        fps = []
        for p in f.get('params', []):
            m = re.match(r'^(\w+) &&(\.\.\.)?$', p['type'])
            if m and m.group(1) in tps: fps.append(m.group(1))
        if not fps: continue
        texts = []
        if f.get('noexcept_text'): texts.append((f['line'], f['noexcept_text']))
        aliases = dict(f.get('aliases') or {})
        for b in f.get('blocks', []):
            t = b.get('term')
            if t and t.get('text') and 'nothrow' in t['text']: texts.append((t.get('line') or f['line'], t['text']))
        for line, tx in texts:
            for name, args in _traits(tx):
                n += 1
                run.inst(site(f, line), 'is_nothrow_%s<%s> names the forwarded source type' % (name, ', '.join(args)[:60]), key=(f['qname'], line, name, tuple(args)))
                for P in fps:
                    bad = None
                    if name == 'constructible' and len(args) >= 2:
                        for a in args[1:]:
                            if _strips(a, P, aliases): bad = a
                    elif name in ('move_constructible', 'copy_constructible') and args:
                        if _strips(args[0], P, aliases): bad = args[0]
                    if bad:
                        run.violation(f['qname'], 'nothrow-src:%s:%s' % (name, P), '%s:%s' % (f['file'], line),
                                      'is_nothrow_%s<%s> in %s asks about constructing from `%s` (the decayed type, i.e. the move constructor), but the argument is forwarded as %s&&: for an lvalue the copy constructor runs; when it throws and the move is noexcept this path is unprotected (std::terminate / recovery skipped)' % (
                                          name, ', '.join(args)[:100], f['qname'].replace('unifex::', ''), bad, P))
                        break
    if n == 0: raise Broken('no nothrow-construction trait in a forwarding function found (extractor too old?)')
