"""R-LIST — intrusive doubly-linked queue manipulation in normal form (C03 stop callbacks, C06/C07 timer queues).

The three hand-written "next + pointer-to-previous-next" lists of the library (inplace_stop_source's
callback list, thread_unsafe_event_loop's and timed_single_thread_context's timer queues) are each
manipulated by four operations.  With N the node, X its next field, P its prev-pointer field, H the
head variable, every assignment to a P field or through a P field must be one of

    unlink      *N.P = N.X ;  N.X.P = N.P                        (second under N.X != null)
    push-head   N.X = H ; N.P = &H ; H.P = &N.X ; H = N          (third under H != null)
    insert-after C:  N.X = C.X ; N.X.P = &N.X ; N.P = &C.X ; C.X = N
    pop-head    H = I.X ; H.P = &H                               (second under H != null; its presence is required)
    mark dequeued   N.P = nullptr

An assignment of another shape leaves a stale or misdirected back pointer: a later unlink then
corrupts the queue (items lost, or a deregistered callback still reachable).  Unrecognised *lhs*
shapes are analysis-broken; a recognised lhs with a wrong rhs is a violation.
"""
import re

from ..core import rule, site, Broken
from ..facts import Graph, last_field

LISTS = [
    # (property, label, function regex, next field, prev field, head fields)
    ('C03', 'inplace_stop_source callbacks', r'^unifex::inplace_stop_source::(request_stop|try_add_callback|remove_callback)$', 'next_', 'prevPtr_', {'callbacks_'}),
    ('C06', 'thread_unsafe_event_loop queue', r'^unifex::thread_unsafe_event_loop::(enqueue|run_until_empty)$|^unifex::_thread_unsafe_event_loop::cancel_callback::operator\(\)$', 'next_', 'prevPtr_', {'head_'}),
    ('C07', 'timed_single_thread_context queue', r'^unifex::timed_single_thread_context::(enqueue|run)$|^unifex::_timed_single_thread_context::cancel_callback::operator\(\)$', 'next_', 'prevNextPtr_', {'head_'}),
]


def _addr(x):
    """rhs is &path -> path ; else None"""
    if isinstance(x, dict) and x.get('op') == 'un' and x.get('o') == '&' and isinstance(x.get('e'), dict) and x['e'].get('op') == 'path':
        return x['e']['p']
    return None


def _plain(x):
    if isinstance(x, dict) and x.get('op') == 'path': return x['p']
    return None


def _mk(prop, label, fnre, X, P, heads):
    rid = 'R-LIST-' + prop
    @rule(rid, [prop], floor=6)
    def r(run, F):
        fs = [f for f in F.funcs if re.search(fnre, f['qname']) and f.get('blocks') and not f.get('lambda')]
        if len(fs) < 3: raise Broken('list functions not found for ' + label)
        for f in fs:
            G = Graph(f)
            assigns = [(n, e) for n, e in G.ev.items() if e.get('k') == 'assign' and e.get('o') == '=']
            # local aliases of the head: `auto* current = head_`
            head_alias = set()
            for n, e in G.ev.items():
                if e.get('k') == 'decl':
                    for v in e['vars']:
                        p = _plain(v.get('init'))
                        if p and last_field(p) in heads and len(p.split('.')) <= 2: head_alias.add(v['var'])
            unlinked = set()     # bases N with a `*N.P = ...` in this function
            for n, e in assigns:
                if e.get('deref') and last_field(e['lhs']) == P: unlinked.add(e['lhs'].rsplit('.', 1)[0])
            def is_head(p):
                return (last_field(p) in heads and len(p.split('.')) <= 2) or p in head_alias
            for n, e in assigns:
                lhs = e['lhs']; rhs = e.get('rhs')
                if last_field(lhs) != P: continue
                base = lhs.rsplit('.', 1)[0]
                loc = '%s:%s' % (f['file'], G.line(n))
                key = (f['qname'], lhs, G.line(n))
                a, pl = _addr(rhs), _plain(rhs)
                if e.get('deref'):
                    # *N.P = N.X
                    run.inst(site(f, G.line(n)), 'unlink: *%s = %s.%s' % (lhs, base, X), key=key)
                    if pl != base + '.' + X:
                        run.violation(f['qname'], 'list-unlink-1:' + base, loc, 'unlinking %s writes %s through its back pointer; it must write %s.%s (the successor), otherwise the predecessor keeps pointing at a removed or wrong node' % (base, pl or 'a non-path value', base, X))
                    continue
                if last_field(base) == X:
                    # N.X.P = ...   (successor's back pointer)
                    N = base.rsplit('.', 1)[0]
                    if is_head(N) or N in head_alias:
                        pass
                    if N in unlinked:
                        run.inst(site(f, G.line(n)), 'unlink: %s = %s.%s' % (lhs, N, P), key=key)
                        if pl != N + '.' + P:
                            run.violation(f['qname'], 'list-unlink-2:' + N, loc, 'while unlinking %s its successor\'s back pointer is set to %s; it must inherit %s.%s, otherwise a later removal of the successor writes into the removed node' % (N, ('&' + a) if a else pl, N, P))
                    else:
                        run.inst(site(f, G.line(n)), 'insert: %s = &%s.%s' % (lhs, N, X), key=key)
                        if a != N + '.' + X:
                            run.violation(f['qname'], 'list-insert-succ:' + N, loc, 'while inserting %s its successor\'s back pointer is set to %s; it must point at &%s.%s, otherwise removing the successor later unlinks the wrong node' % (N, ('&' + a) if a else pl, N, X))
                    continue
                if is_head(base):
                    # H.P = &H (pop-head) | &N.X (push-head)
                    run.inst(site(f, G.line(n)), 'head back pointer: %s' % lhs, key=key)
                    ok = (pl == '#null' and base in head_alias) or (a is not None and (is_head(a) and last_field(a) == last_field(base) or (last_field(a) == X and not is_head(a.rsplit('.', 1)[0]))))
                    # push-head through an alias: `current->prevPtr_ = &op->next_` where current aliases the old head
                    if not ok:
                        run.violation(f['qname'], 'list-head-back:' + base, loc, 'the head node\'s back pointer is set to %s; it must be &%s after popping the old head or &<new node>.%s after pushing a new one' % (('&' + a) if a else pl, base, X))
                    continue
                # N.P = &H | &C.X | nullptr
                run.inst(site(f, G.line(n)), 'node back pointer: %s' % lhs, key=key)
                ok = pl == '#null' or (a is not None and (is_head(a) or last_field(a) == X))
                if not ok:
                    run.violation(f['qname'], 'list-node-back:' + base, loc, 'node %s\'s back pointer is set to %s; it must be &head, &<predecessor>.%s or nullptr (dequeued)' % (base, ('&' + a) if a else pl, X))
            # pop-head completeness: after `H = I.X` the new head's back pointer is re-pointed at &H
            for n, e in assigns:
                lhs = e['lhs']; pl = _plain(e.get('rhs'))
                if not (is_head(lhs) and lhs not in head_alias and pl and last_field(pl) == X): continue
                run.inst(site(f, G.line(n)), 'pop-head: %s = %s is followed by %s.%s = &%s' % (lhs, pl, lhs, P, lhs), key=(f['qname'], 'pop-fix', G.line(n)))
                after = G.reach([m for m, _ in G.succ.get(n, [])])
                fix = [m for m, e2 in assigns if m in after and last_field(e2['lhs']) == P and is_head(e2['lhs'].rsplit('.', 1)[0]) and _addr(e2.get('rhs')) is not None and is_head(_addr(e2.get('rhs')))]
                if not fix:
                    run.violation(f['qname'], 'list-pop-nofix:' + last_field(lhs), '%s:%s' % (f['file'], G.line(n)),
                                  'after popping the head (%s = %s) the new head\'s back pointer is never re-pointed at &%s: it still points into the popped node, so removing the new head later (a deregistration during callback delivery, a cancelled timer) does not unlink it' % (lhs, pl, lhs))
            # unlink completeness: every `*N.P = N.X` is accompanied by the successor fix-up
            for N in unlinked:
                fix = [e for n, e in assigns if e['lhs'] == '%s.%s.%s' % (N, X, P)]
                run.inst(site(f), 'unlink of %s fixes the successor' % N, key=(f['qname'], N, 'fix'))
                if not fix:
                    run.violation(f['qname'], 'list-unlink-nofix:' + N, '%s:%s' % (f['file'], f['line']), 'unlinking %s never updates its successor\'s back pointer' % N)
    r.__doc__ = 'every assignment to or through a back-pointer field of the %s is one of the normal forms of unlink / push-head / insert-after / pop-head / mark-dequeued (successor inherits the removed node\'s back pointer; inserted node\'s successor points at &node.next; head points at &head)' % label
    from .. import core
    core.RULES[rid]['doc'] = r.__doc__
    return r


for _row in LISTS:
    _mk(*_row)
