"""R-FLOWS — member-to-member data flow of an algorithm does not lose an edge.

Linking and hand-over steps of the protocols are assignments from one piece of state to another:
`next_ = exchange(head_, this)` (push), `head_ = item->next_` (pop), `op->prevPtr_ = &head_`, `result_ = state_`,
`continuation_ = exchange(other.continuation_, {})`.  For every algorithm namespace, tables/flows.json freezes the set
of edges  `L <- R`  where L is the member written (by assignment, member initialiser, store/exchange/CAS desired
value) and R a member (or `this`) occurring in the value written; locals that are plain copies of a member or hold
the result of an exchange/load of a member stand for that member (so `tmp = x_; x_ = v; y_ = tmp` still yields
`y_ <- x_`).

Violation: an edge of the frozen set no longer occurs anywhere in its algorithm namespace - a link or hand-over step
was dropped or now takes its value from somewhere else.  New edges, edges moved between functions, merged duplicates
are silent.
"""
import collections, json, os, re, sys

from ..core import rule, Broken, VERIF
from ..facts import events, last_field, family_of, expr_paths
from .polarity import norm_fn, file_props

TABLE = os.path.join(VERIF, 'tables', 'flows.json')
WRITE_CALLS = {'store': 0, 'exchange': 0, 'compare_exchange_strong': 1, 'compare_exchange_weak': 1}
READ_CALLS = {'load', 'exchange', 'fetch_add', 'fetch_sub', 'fetch_or', 'fetch_and'}


def _member(p):
    """member name a path ends in, or 'this'; None for locals / constants / calls"""
    if not p or p.startswith(('#', '<')): return None
    if p in ('this', '&this'): return 'this'
    comps = [c for c in p.split('.') if c]
    if not comps: return None
    last = comps[-1]
    if last.endswith('()'):
        # x_.load() / x_.get(): the object the accessor is applied to
        if len(comps) >= 2 and not comps[-2].endswith('()'): last = comps[-2]
        else: return None
    if len(comps) == 1 and not last.endswith('_'): return None        # a bare local / parameter
    if last in ('this',): return 'this'
    return re.sub(r'\[\]$', '', last)


def edges_of(f):
    env = {}        # local -> member it stands for
    for i, p in enumerate(f.get('params', [])):
        if p.get('name'): env[p['name']] = '$p%d' % i          # a parameter is named by its position (its name is free)
    ev_by_eid = {}
    for b, i, e in events(f):
        if e['k'] == 'call': ev_by_eid[e.get('eid')] = e
    def srcs(x, depth=0):
        out = set()
        if not isinstance(x, dict) or depth > 6: return out
        if x.get('op') == 'path':
            p = x.get('p') or ''
            h = p.split('.')[0]
            if h in env and len(p.split('.')) == 1: out.add(env[h])
            else:
                m = _member(p)
                if m: out.add(m)
                elif h in env and not env[h].startswith('$p'): out.add(env[h])
        elif x.get('op') == 'call':
            ce = ev_by_eid.get(x.get('eid'))
            if ce is not None:
                nm = (ce['callee'].get('name') or '').split('::')[-1]
                b = ce['callee'].get('base')
                if b and nm in READ_CALLS:
                    m = _member(b)
                    if m: out.add(m)
                elif nm == 'exchange' and not b and ce.get('args'):
                    out |= srcs(ce['args'][0], depth + 1)
                else:
                    m = _member(x.get('p') or '')
                    if m: out.add(m)
                    for a in ce.get('args', []): out |= srcs(a, depth + 1)
            else:
                m = _member(x.get('p') or '')
                if m: out.add(m)
        for k in ('l', 'r', 'e', 'c', 't', 'f'):
            if k in x: out |= srcs(x[k], depth + 1)
        return out
    out = set()
    for b, i, e in events(f):
        k = e['k']
        if k == 'decl':
            for v in e['vars']:
                s = srcs(v.get('init'))
                if len(s) == 1: env[v['var']] = next(iter(s))
        elif k == 'assign':
            L = _member(e.get('lhs') or '')
            s = srcs(e.get('rhs'))
            if L is None:
                lhs = e.get('lhs') or ''
                if lhs and '.' not in lhs and len(s) == 1: env[lhs] = next(iter(s))
                continue
            for r in s:
                if r != L: out.add('%s <- %s' % (L, r))
        elif k == 'init' and e.get('field'):
            for r in srcs(e.get('v')):
                if r != e['field']: out.add('%s <- %s' % (e['field'], r))
        elif k == 'call':
            nm = (e['callee'].get('name') or '').split('::')[-1]
            b = e['callee'].get('base')
            if nm in WRITE_CALLS and b and e.get('args') and len(e['args']) > WRITE_CALLS[nm]:
                L = _member(b)
                if L:
                    for r in srcs(e['args'][WRITE_CALLS[nm]]):
                        if r != L: out.add('%s <- %s' % (L, r))
            elif nm == 'exchange' and not b and len(e.get('args', [])) == 2:
                L = None
                a0 = e['args'][0]
                if isinstance(a0, dict) and a0.get('op') == 'path': L = _member(a0.get('p') or '')
                if L:
                    for r in srcs(e['args'][1]):
                        if r != L: out.add('%s <- %s' % (L, r))
    return out


def flows(F):
    out = collections.defaultdict(set)
    for f in F.funcs:
        if not f.get('blocks'): continue
        fam = family_of(norm_fn(f.get('record') or (f.get('parent_fn') or '').split('@')[0].rsplit('::', 1)[0] or f['qname'].rsplit('::', 1)[0]))
        es = edges_of(f)
        if es: out[(f['file'], fam)] |= es
    return out


def _check(run, F, prop, fp):
    with open(TABLE) as fh: rows = [r for r in json.load(fh)['rows'] if prop in fp.get(r['file'], ())]
    if not rows: raise Broken('no flow rows for ' + prop)
    cur = flows(F)
    for r in rows:
        want = r['edges'].get(F.config) or r['edges'].get('*')
        if want is None: continue
        k = (r['file'], r['fam'])
        if k not in cur:
            run.broke('algorithm namespace %s (%s) of the flow table has no member-to-member assignment any more' % (r['fam'], r['file'])); continue
        have = cur[k]
        run.inst('%s %s' % (r['file'], r['fam']), '%d member-to-member flow edges' % len(want), key=k)
        for e in sorted(set(want) - have):
            L = e.split(' <- ')[0]
            now = sorted(x for x in have if x.startswith(L + ' <- '))
            run.violation(r['fam'], 'flow-dropped:' + e, '%s:1' % r['file'],
                          'in %s the member flow `%s` no longer occurs%s: a linking / hand-over step of the protocol was dropped or takes its value from somewhere else' % (
                              r['fam'].replace('unifex::', ''), e, (' (%s is now written from: %s)' % (L, ', '.join(x.split(' <- ')[1] for x in now))) if now else ' (nothing is written to %s from a member any more)' % L))


def _mk(prop, floor, fp):
    rid = 'R-FLOWS-' + prop
    @rule(rid, [prop], floor=floor)
    def r(run, F, prop=prop): _check(run, F, prop, fp)
    r.__doc__ = 'for every algorithm namespace in the files anchored by %s, each member-to-member data-flow edge (member written <- member/this occurring in the value: pushes, pops, back-pointer updates, hand-over of continuations and results; locals standing for the member they copy) frozen in tables/flows.json still occurs somewhere in that namespace: no linking or hand-over step was dropped or re-sourced (new edges, moved code, merged duplicates are silent)' % prop
    from .. import core
    core.RULES[rid]['doc'] = r.__doc__


try:
    _fp = file_props()
    with open(TABLE) as _fh: _rows = json.load(_fh)['rows']
    _cnt = collections.defaultdict(collections.Counter)
    for _r in _rows:
        for _p in _fp.get(_r['file'], ()):
            for _c in ('d20', 'd17', 'r17', 'r20', 'v20'):
                if (_r['edges'].get(_c) or _r['edges'].get('*')) is not None: _cnt[_p][_c] += 1
    for _p, _cc in sorted(_cnt.items()): _mk(_p, min(_cc.get(_c, 0) for _c in ('d20', 'd17', 'r17', 'r20', 'v20')) // 2, _fp)
except FileNotFoundError:
    pass


def freeze():
    from .. import extract
    from ..facts import Facts
    cfgs = ['d20', 'd17', 'r17', 'r20', 'v20']
    files, _ = extract.extract(cfgs)
    per = {c: flows(Facts(files[c], c)) for c in cfgs}
    rows = []
    for k in sorted(set(k for c in cfgs for k in per[c])):
        es = {c: sorted(per[c][k]) for c in cfgs if k in per[c]}
        vals = list(es.values())
        if len(es) == len(cfgs) and all(v == vals[0] for v in vals): es = {'*': vals[0]}
        rows.append(dict(file=k[0], fam=k[1], edges=es))
    with open(TABLE, 'w') as fh: json.dump(dict(_doc='frozen member-to-member flow edges per algorithm namespace; see usa/rules/flows.py', rows=rows), fh, indent=0)
    print(len(rows), 'namespaces;', sum(len(next(iter(r['edges'].values()))) for r in rows), 'edges')


if __name__ == '__main__':
    if '--freeze' in sys.argv: freeze()
