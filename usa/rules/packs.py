"""R-PACK-OPTIONAL — an optional/variant-like result object is never built from a bare pack expansion (C05).

`optional<T>{ts...}` / `optional<T>(ts...)` inside a variadic lambda or template is value-initialisation when the
pack is empty: the result is a *disengaged* optional.  In the value->optional adapters (done_as_optional and its
relatives) the empty pack is the `set_value()` of a void sender, which must map to an *engaged* optional (the
"value" outcome) and be distinguishable from the `set_done` -> nullopt outcome; the construction therefore has to
carry a fixed leading argument (`std::in_place`) or go through emplace.  The rule is purely about the shape of the
construction expression (type-dependent construct whose written type names an optional, sole argument a pack
expansion); what it decides is that the empty-pack instantiation cannot collapse onto the disengaged state, not
the values delivered.
"""
import re

from ..core import rule, site, Broken
from ..facts import events

OPTIONAL = re.compile(r'\boptional(_t)?\b|\bstd::optional<')


@rule('R-PACK-OPTIONAL', ['C05', 'C13', 'C10'], floor=1)
def optional_from_bare_pack(run, F):
    """every type-dependent construction of an optional-typed object (written type names `optional`) passes at least one non-pack argument or none at all: `optional_t{pack...}` with an empty pack is a disengaged optional, which merges the value outcome of a void sender with the done outcome"""
    n = 0
    for f in F.funcs:
        if not f.get('blocks'): continue
        for b, i, e in events(f):
            if e.get('k') != 'construct' or 'nargs' not in e: continue
            if not OPTIONAL.search(e.get('type', '')): continue
            n += 1
            run.inst(site(f, e.get('line')), 'optional construction `%s` with %d argument(s) is not a bare pack expansion' % (e['type'], e['nargs']),
                     key=(f['qname'], e.get('line'), e['type']))
            if e.get('packonly'):
                run.violation(f['qname'], 'optional-from-bare-pack', '%s:%s' % (f['file'], e.get('line')),
                              '`%s{pack...}` is built from nothing but a pack expansion: for the empty pack (a void sender\'s set_value()) this is value-initialisation, i.e. a disengaged optional indistinguishable from the done outcome; a fixed leading argument (std::in_place) is required' % e['type'])
    if n == 0: raise Broken('no type-dependent construction of an optional found (done_as_optional gone, or extractor too old)')
