"""R-ASSIGN-CONST — constants assigned to (non-atomic) state members, against a frozen table.

Sibling of R-AVAL for plain members: flags, discriminators, enum-valued state machines guarded by a mutex or
confined to one thread (`done_ = true`, `state_ = state::done`, `nextEngaged_ = false`, `stop_ = true`).
tables/assign_values.json lists, per (file, algorithm namespace, member), the set of compile-time constants the
tree assigns to that member (member initialisers and constructor initialisers included).

Violation: a current assignment writes a constant that the frozen set for that member does not contain - a flag
polarity or a state-machine target changed (`= true` for `= false`, `state::not_started` for `state::completed`).
Constants that merely disappeared, assignments of variables, new members are silent.
"""
import collections, json, os, re, sys

from ..core import rule, Broken, VERIF
from ..facts import events, last_field, family_of
from .polarity import norm_fn, file_props
from .atomics import _const

TABLE = os.path.join(VERIF, 'tables', 'assign_values.json')


def _norm(c):
    return {'#false': '#0', '#true': '#1'}.get(c, c)


def sites(F):
    return [dict(s, value=_norm(s['value'])) for s in _sites(F)]


def _sites(F):
    out = []
    for f in F.funcs:
        if not f.get('blocks'): continue
        fam = family_of(norm_fn(f.get('record') or (f.get('parent_fn') or '').split('@')[0].rsplit('::', 1)[0] or f['qname'].rsplit('::', 1)[0]))
        for b, i, e in events(f):
            if e['k'] == 'assign' and e.get('o', '=') == '=':
                lhs = e.get('lhs') or ''
                m = last_field(lhs)
                if not m or '.' not in lhs and not m.endswith('_'): continue          # a local
                if lhs.split('.')[0] not in ('this',) and not m.endswith('_') and len(lhs.split('.')) < 2: continue
                c = _const(e.get('rhs'))
                if c is None: continue
                out.append(dict(file=f['file'], fam=fam, member=m, value=c, line=e.get('line'), f=f))
            elif e['k'] == 'init' and e.get('field'):
                c = _const(e.get('v'))
                if c is None: continue
                out.append(dict(file=f['file'], fam=fam, member=e['field'], value=c, line=e.get('line'), f=f))
    for r in F.recs:
        fam = family_of(norm_fn(r['qname']))
        for fl in r['fields']:
            if fl.get('static') or not fl.get('has_init'): continue
            c = _const({'op': 'path', 'p': fl.get('init') or ''}) if (fl.get('init') or '').startswith('#') else None
            if c is None: continue
            out.append(dict(file=r['file'], fam=fam, member=fl['name'], value=c, line=fl.get('line') or r['line'], f=dict(qname=r['qname'], file=r['file'], line=r['line'])))
    return out


def _check(run, F, prop, fp):
    with open(TABLE) as fh: rows = {(r['file'], r['fam'], r['member']): r for r in json.load(fh)['rows'] if prop in fp.get(r['file'], ())}
    if not rows: raise Broken('no assignment rows for ' + prop)
    cur = collections.defaultdict(list)
    for s in sites(F): cur[(s['file'], s['fam'], s['member'])].append(s)
    for k, r in sorted(rows.items()):
        have = cur.get(k)
        if not have:
            run.inst('%s %s' % (k[0], k[1]), '%s: no constant assignment in this configuration' % k[2], nontrivial=False, key=k + ('n/a',)); continue
        want = set(r['values'])
        run.inst('%s:%s %s' % (k[0], have[0]['line'], k[1]), '%s is assigned only %s' % (k[2], sorted(want)), key=k)
        for s in have:
            if s['value'] not in want:
                run.violation(s['f']['qname'], 'assign-const:%s' % k[2], '%s:%s' % (s['file'], s['line']),
                              '%s is assigned %s here; the frozen protocol table knows only %s for this member: a flag polarity or a state-machine target changed' % (k[2], s['value'], sorted(want)))
                break


def _mk(prop, floor, fp):
    rid = 'R-ASSIGN-CONST-' + prop
    @rule(rid, [prop], floor=floor)
    def r(run, F, prop=prop): _check(run, F, prop, fp)
    r.__doc__ = 'every compile-time constant (flag value, enumerator, nullptr, literal) assigned to a state member in the files anchored by %s - member initialisers and constructor initialisers included - is one that tables/assign_values.json lists for that member of that algorithm: no flag polarity or state-machine target changed (vanished constants, variables and new members are silent)' % prop
    from .. import core
    core.RULES[rid]['doc'] = r.__doc__


try:
    _fp = file_props()
    with open(TABLE) as _fh: _rows = json.load(_fh)['rows']
    _cnt = collections.Counter()
    for _r in _rows:
        for _p in _fp.get(_r['file'], ()): _cnt[_p] += 1
    for _p, _n in sorted(_cnt.items()): _mk(_p, max(0, _n // 6), _fp)
except FileNotFoundError:
    pass


def freeze():
    from .. import extract
    from ..facts import Facts
    cfgs = ['d20', 'd17', 'r17', 'r20', 'v20']
    files, _ = extract.extract(cfgs)
    acc = collections.defaultdict(set)
    for c in cfgs:
        for s in sites(Facts(files[c], c)): acc[(s['file'], s['fam'], s['member'])].add(s['value'])
    rows = [dict(file=k[0], fam=k[1], member=k[2], values=sorted(v)) for k, v in sorted(acc.items())]
    with open(TABLE, 'w') as fh: json.dump(dict(_doc='frozen constants assigned to state members; see usa/rules/assignconst.py', rows=rows), fh, indent=0)
    print(len(rows), 'members')


if __name__ == '__main__':
    if '--freeze' in sys.argv: freeze()
