"""R-SIB — sibling agreement (Engler-style): near-duplicate operation classes implementing the same protocol
for different directions/shapes agree, method by method, on the *set* of protocol-relevant calls they
make (completions by channel, epoll_ctl by operation, atomic operations by member, stop-callback
construct/destruct, scheduling calls).  Statement order is not compared, so reordering independent
statements in one sibling is not a difference; a call present in one sibling and missing in the other
(e.g. the EPOLL_CTL_DEL on the cancellation path of the write operation but not of the read operation)
is."""
import collections, re

from ..core import rule, site, Broken
from ..facts import events, last_field, expr_paths, TERMQ
from .c20_config import PROTO_NAMES

EXTRA = {'schedule_local', 'schedule_remote', 'schedule_pending_io', 'try_submit_io', 'readv', 'writev', 'enqueue', 'execute'}
SAME = {'readv': 'io-syscall', 'writev': 'io-syscall'}

PAIRS = [
    # (property, record A, record B, method renames A->B)
    ('C14', 'unifex::linuxos::io_epoll_context::read_sender::operation', 'unifex::linuxos::io_epoll_context::write_sender::operation', {'on_read_complete': 'on_write_complete'}),
    ('C14', 'unifex::linuxos::io_uring_context::read_sender::operation', 'unifex::linuxos::io_uring_context::write_sender::operation', {'on_read_complete': 'on_write_complete'}),
    ('C14', 'unifex::linuxos::io_uring_context::read_sender::operation', 'unifex::linuxos::io_uring_context::accept_sender::operation', {'on_read_complete': 'on_accept'}),
    ('C07', 'unifex::linuxos::io_epoll_context::schedule_at_sender::operation', 'unifex::linuxos::io_uring_context::schedule_at_sender::operation', {}),
    ('C07', 'unifex::_timed_single_thread_context::_after_op::type', 'unifex::_timed_single_thread_context::_at_op::type', {}),
    ('C07', 'unifex::_thread_unsafe_event_loop::_after_op::type', 'unifex::_thread_unsafe_event_loop::_at_op::type', {}),
    ('C01', 'unifex::_when_all::_element_receiver::type', 'unifex::_when_all_range::_element_receiver::type', {}),
]
SKIP_METHODS = {'tag_invoke'}


def proj(f):
    out = set()
    for b, i, e in events(f):
        if e['k'] != 'call' or (e.get('macro') or '').startswith(('UNIFEX_ASSERT', 'assert')): continue
        ce = e['callee']; nm = ce.get('name') or ''; q = ce.get('qname') or ''
        if q in TERMQ: out.add('completion:' + TERMQ[q])
        elif nm == 'epoll_ctl':
            ops = sorted(p for a in e.get('args', []) for p in expr_paths(a) if re.match(r'#\d+$', p) or 'EPOLL_CTL' in p)
            out.add('epoll_ctl(' + ','.join(ops[:1]) + ')')
        elif nm in PROTO_NAMES or nm in EXTRA:
            nm2 = SAME.get(nm, nm)
            if nm in ('destruct', 'construct', 'fetch_add', 'fetch_sub', 'load', 'store', 'exchange', 'compare_exchange_strong'):
                nm2 += ':' + last_field(ce.get('base', ''))
            out.add(nm2)
    return out


def _mk(prop):
    rows = [r for r in PAIRS if r[0] == prop]
    rid = 'R-SIB-' + prop
    @rule(rid, [prop], floor=len(rows) * 2)
    def r(run, F, rows=rows):
        for _, a, b, ren in rows:
            fa = {f['name']: f for f in F.by_record.get(a, []) if f.get('blocks') and not f.get('lambda') and not f.get('ctor') and not f.get('dtor') and f['name'] not in SKIP_METHODS}
            fb = {f['name']: f for f in F.by_record.get(b, []) if f.get('blocks') and not f.get('lambda') and not f.get('ctor') and not f.get('dtor') and f['name'] not in SKIP_METHODS}
            if not fa or not fb: raise Broken('sibling classes %s / %s not found' % (a, b))
            for n, f in sorted(fa.items()):
                m = ren.get(n, n)
                if m not in fb:
                    run.broke('method %s of %s has no counterpart %s in sibling %s' % (n, a, m, b)); continue
                g = fb[m]
                pa, pb = proj(f), proj(g)
                run.inst(site(f), 'agrees with sibling %s::%s on %d protocol calls' % (b.split('::')[-2], m, len(pa)), nontrivial=bool(pa), key=(a, b, n))
                if pa != pb:
                    oa, ob = sorted(pa - pb), sorted(pb - pa)
                    # report at the sibling that lacks a call the other one makes
                    if oa:
                        run.violation(g['qname'], 'sibling-lacks:' + ','.join(oa), '%s:%s' % (g['file'], g['line']),
                                      '%s does not make the protocol call(s) %s that its sibling %s makes in the same role: the two implementations of this protocol have diverged' % (g['qname'].replace('unifex::', ''), oa, f['qname'].replace('unifex::', '')))
                    if ob:
                        run.violation(f['qname'], 'sibling-lacks:' + ','.join(ob), '%s:%s' % (f['file'], f['line']),
                                      '%s does not make the protocol call(s) %s that its sibling %s makes in the same role: the two implementations of this protocol have diverged' % (f['qname'].replace('unifex::', ''), ob, g['qname'].replace('unifex::', '')))
    r.__doc__ = 'declared sibling operation classes (epoll read/write, io_uring read/write/accept, after/at timer operations, when_all/when_all_range element receivers) agree method by method on the set of protocol-relevant calls: completions by channel, epoll_ctl by operation, atomic operations and stop-callback construct/destruct by member, scheduling calls'
    from .. import core
    core.RULES[rid]['doc'] = r.__doc__
    return r


for _p in ('C14', 'C07', 'C01'):
    _mk(_p)
