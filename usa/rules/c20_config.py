"""C20 — build configuration never changes results; async-stack bookkeeping is balanced."""
import collections, re

from ..core import rule, site, Broken
from ..facts import Graph, events, last_field, expr_paths, TERMQ

ASSERT_MACROS = ('UNIFEX_ASSERT', 'assert', 'UNIFEX_ASSUME')

# names that mutate state or are protocol events: never allowed inside an assertion
IMPURE = {
    'store', 'exchange', 'fetch_add', 'fetch_sub', 'fetch_or', 'fetch_and', 'fetch_xor', 'compare_exchange_strong',
    'compare_exchange_weak', 'set_value', 'set_error', 'set_done', 'set_next', 'start', 'connect', 'request_stop',
    'destruct', 'construct', 'construct_with', 'emplace', 'reset', 'release', 'activate_union_member',
    'activate_union_member_with', 'deactivate_union_member', 'push_back', 'push_front', 'pop_front', 'pop_back',
    'notify_one', 'notify_all', 'lock', 'unlock', 'try_lock', 'wait', 'join', 'detach', 'resume', 'destroy', 'enqueue',
    'dequeue', 'dequeue_all', 'try_complete', 'set', 'insert', 'remove', 'erase', 'clear', 'swap', 'close',
    'try_record_start', 'record_done', 'unsubscribe', 'subscribe', 'schedule_impl', 'execute', 'operator=', 'operator++',
    'operator--', 'operator+=', 'operator-=', 'try_mark_active', 'try_mark_inactive', 'mark_active', 'push', 'pop',
}
# std / foreign observers met inside today's assertions (each confirmed pure by reading)
PURE_FOREIGN = {
    '__assert_fail', 'load', 'size', 'empty', 'joinable', 'operator bool', 'has_value', 'stop_possible', 'stop_requested',
    'get_id', 'operator==', 'operator!=', 'operator<', 'operator<=', 'operator>', 'operator>=', 'operator!', 'operator&',
    'operator->', 'operator*', 'get', 'data', 'begin', 'end', 'valid', 'done', 'address', 'handle', 'done_handle', 'operator&&',
    'operator||', 'min', 'max', 'move', 'forward', 'as_const', 'addressof', 'get_stop_token', 'operator[]', 'count', 'index',
    'holds_alternative', 'owns_lock', 'value', 'operator()', 'from_address', 'from_promise', 'promise',
}


def in_assert(e):
    m = e.get('macro', '')
    return any(m == a or m.startswith(a) for a in ASSERT_MACROS)


def _pure_function(F, g, depth=0, seen=None):
    """no write to non-local state, no impure call, transitively (depth-bounded)"""
    seen = seen or set()
    if id(g) in seen or depth > 4: return True
    seen.add(id(g))
    locals_ = set()
    for b, i, e in events(g):
        if e['k'] == 'decl':
            for v in e['vars']: locals_.add(v['var'])
    for b, i, e in events(g):
        if in_assert(e): continue
        if e['k'] in ('assign', 'incdec'):
            head = e['lhs'].split('.')[0]
            if head not in locals_ or '.' in e['lhs'] and head == 'this': return False
        elif e['k'] == 'call':
            ok, why = _pure_call(F, g, e, depth + 1, seen)
            if not ok: return False
        elif e['k'] in ('new', 'delete'):
            return False
    return True


def _pure_call(F, f, e, depth=0, seen=None):
    ce = e['callee']; name = ce.get('name') or ''; q = ce.get('qname') or ''
    if e.get('operator') in ('=', '++', '--', '+=', '-=', '|=', '&='): return False, 'assignment operator'
    if name in IMPURE: return False, name
    if q in TERMQ: return False, q
    cands = [g for g in F.by_q.get(q, []) if g.get('blocks')] if q else []
    if not cands and ce.get('kind') in ('dep_member', 'unresolved', 'dep_scope'):
        cands = [g for g in F.funcs if g['name'] == name and not g.get('lambda') and g.get('blocks')][:8]
    if cands:
        for g in cands:
            if not _pure_function(F, g, depth, seen): return False, '%s (body has side effects)' % (q or name)
        return True, ''
    if name in PURE_FOREIGN or q.startswith('std::') and name not in IMPURE: return True, ''
    if ce.get('kind') in ('var', 'localvar', 'expr'): return True, ''   # CPO objects other than completions / calls of local callables
    return True, ''


@rule('R-CFGX-ASSERT', ['C20'], floor=150, configs=['d20', 'd17', 'v20'])
def assert_purity(run, F):
    """assertion arguments are pure observers: no assignment, increment, atomic read-modify-write/store, protocol event or repository function with side effects is evaluated inside UNIFEX_ASSERT/assert (they vanish under NDEBUG)"""
    for f in F.funcs:
        for b, i, e in events(f):
            if not in_assert(e): continue
            k = e['k']
            if k == 'call' and e['callee'].get('name') == '__assert_fail':
                run.inst(site(f, e.get('line')), 'assertion', key=(f['qname'], e.get('line'), 'assert'))
                continue
            if k in ('assign', 'incdec'):
                run.inst(site(f, e.get('line')), 'write inside assertion', key=(f['qname'], e['lhs']))
                run.violation(f['qname'], 'assert-write:' + last_field(e['lhs']), '%s:%s' % (f['file'], e.get('line')),
                              'assertion argument writes %s: the write disappears in NDEBUG builds, so debug and release behave differently' % e['lhs'])
            elif k == 'call':
                ok, why = _pure_call(F, f, e)
                run.inst(site(f, e.get('line')), 'call %s inside assertion is a pure observer' % (e['callee'].get('qname') or e['callee'].get('name')), key=(f['qname'], e.get('line'), e['callee'].get('name')))
                if not ok:
                    run.violation(f['qname'], 'assert-effect:' + (e['callee'].get('name') or '?'), '%s:%s' % (f['file'], e.get('line')),
                                  'assertion argument has a side effect (%s): it is not evaluated in NDEBUG builds, so debug and release behave differently' % why)


# ---------------------------------------------------------------------------------------------
# configuration differential

PROTO_NAMES = IMPURE | {'load', 'stop_requested', 'schedule', 'schedule_after', 'schedule_at', 'get_stop_token', 'cleanup', 'next'}
# documented configuration-only differences (normalised away), each with the reason
NORMALISE = [
    (re.compile(r'inplace_stop_callback_base_d'), 'inplace_stop_callback_base', 'debug builds rename the base class when UNIFEX_LOG_DANGLING_STOP_CALLBACKS is on (inplace_stop_token.hpp)'),
]
# functions whose body legitimately differs between configurations (tracing only); one row per function
DIFF_EXEMPT = {
    'unifex::_ch::continuation_handle<>::continuation_handle': 'writes vtable_, a member that only exists when UNIFEX_ENABLE_CONTINUATION_VISITATIONS is set (the type-erased visitation table of the handle); there is no such state in the other build and no protocol effect',
    'unifex::inplace_stop_source::~inplace_stop_source': 'debug-only diagnostic listing of dangling callbacks (UNIFEX_LOG_DANGLING_STOP_CALLBACKS); reads only, no protocol effect',
}


def _skeleton(f):
    """ordered protocol projection of a function: protocol calls (with memory orders), assignments to
    non-local state, returns of constants; assertion contents and tracing calls are dropped"""
    out = []
    for b in sorted(f.get('blocks', []), key=lambda b: -b['id']):
        for e in b['elems']:
            if in_assert(e): continue
            k = e['k']
            if k == 'call':
                ce = e['callee']; nm = ce.get('name') or ''
                q = ce.get('qname') or nm
                if q in TERMQ or nm in PROTO_NAMES or ce.get('kind') == 'var':
                    mo = [re.sub(r'.*memory_order_', '', a.get('p', '')) for a in e.get('args', []) if isinstance(a, dict) and 'memory_order' in a.get('p', '')]
                    s = '%s(%s)' % (q.split('::')[-1], ','.join(mo))
                    for rx, rep, _ in NORMALISE: s = rx.sub(rep, s)
                    out.append(s)
            elif k == 'assign' and ('.' in e['lhs']):
                out.append('=' + last_field(e['lhs']))
            elif k == 'throw':
                out.append('throw')
        t = b.get('term')
        if t and t.get('kind') in ('IfStmt', 'WhileStmt', 'ForStmt', 'DoStmt', 'SwitchStmt') and not any((t.get('macro') or '').startswith(a) for a in ASSERT_MACROS):
            out.append('?' + t['kind'][0] + ('c' if t.get('constexpr') else ''))
    return out


def _sig(f):
    if f.get('lambda'):   # same source text in both configurations: a lambda is identified by its position
        return ('<lambda>', f.get('fid', '').split('/include/')[-1].split('/source/')[-1])
    return (re.sub(r'inplace_stop_callback_base_d', 'inplace_stop_callback_base', f['qname']), tuple(p['type'] for p in f.get('params', [])))


@rule('R-CFGX-DIFF', ['C20'], floor=1500, cross=True)
def config_diff(run, allF):
    """every function present in two configurations (debug vs NDEBUG, C++17 vs C++20, continuation visitation on vs off) has the same protocol projection — completions, child starts, atomic operations with their orders, stop requests, lock/notify calls, state writes and branch structure — outside assertions"""
    pairs = [('d17', 'r17'), ('d20', 'd17'), ('d20', 'r20'), ('d20', 'v20')]
    n = 0
    for a, b in pairs:
        if a not in allF or b not in allF: continue
        run.cur_cfg = a + '~' + b
        idx = collections.defaultdict(list)
        for f in allF[b].funcs:
            idx[_sig(f)].append(f)
        for f in allF[a].funcs:
            gs = idx.get(_sig(f))
            if not gs or len(gs) != 1: continue
            g = gs[0]
            sa, sb = _skeleton(f), _skeleton(g)
            nt = bool(sa)
            run.inst(site(f), 'protocol projection equal in %s and %s' % (a, b), nontrivial=nt, key=(f['qname'], len(f.get('params', []))))
            n += 1
            if sa != sb and f['qname'] not in DIFF_EXEMPT:
                # first difference
                i = 0
                while i < min(len(sa), len(sb)) and sa[i] == sb[i]: i += 1
                da = sa[i] if i < len(sa) else '<end>'; db = sb[i] if i < len(sb) else '<end>'
                run.violation(f['qname'], 'cfgdiff:%s~%s' % (a, b), '%s:%s' % (f['file'], f['line']),
                              'protocol-relevant behaviour differs between configurations %s and %s: first difference at step %d: %s vs %s' % (a, b, i, da, db),
                              path=['%s: %s' % (a, ' '.join(sa[max(0, i - 3):i + 4])), '%s: %s' % (b, ' '.join(sb[max(0, i - 3):i + 4]))])
    run.cur_cfg = '*'


CFG_COND = re.compile(r'WithAsyncStackSupport|UNIFEX_NO_ASYNC_STACKS|NDEBUG|UNIFEX_ENABLE_CONTINUATION_VISITATIONS|UNIFEX_LOG_DANGLING')


def _proto_of(e):
    if e.get('k') != 'call' or in_assert(e): return None
    ce = e['callee']; nm = ce.get('name') or ''; q = ce.get('qname') or nm
    if q in TERMQ: return q.split('::')[-1]
    if nm in PROTO_NAMES and nm not in ('get_stop_token', 'load'): return nm
    if ce.get('kind') == 'var' and nm in ('start', 'connect', 'set_value', 'set_error', 'set_done', 'schedule'): return nm
    return None


@rule('R-CFGX-ARMS', ['C20'], floor=8, configs=['d20', 'r20', 'v20'])
def config_arms(run, F):
    """for every `if constexpr` whose condition derives from a build-configuration switch (async-stack support, NDEBUG, continuation visitation), the protocol projection of the code exclusive to the taken arm equals that of the skipped arm: tracing may differ, completions/resumptions/atomics/stop requests may not"""
    for f in F.funcs:
        if not any((b.get('term') or {}).get('constexpr') for b in f.get('blocks', [])): continue
        G = None
        for b in f['blocks']:
            t = b.get('term') or {}
            if not t.get('constexpr') or not CFG_COND.search(t.get('text', '')): continue
            if re.search(r'same_as|is_same', t.get('text', '')): continue      # query-dispatch on the CPO type, not a behavioural switch
            G = G or Graph(f)
            n = G.term_node[b['id']]
            tt = tf = None
            for m, lab in G.succ.get(n, []):
                if lab is True: tt = m
                elif lab is False: tf = m
            if tt is None or tf is None: continue
            et, ef = _path_projections(G, tt), _path_projections(G, tf)
            if et is None or ef is None:
                run.inst(site(f, t.get('line')), 'arms too large to enumerate (not decided)', nontrivial=False, key=(f['qname'], t.get('line')))
                continue
            run.inst(site(f, t.get('line')), 'arms of `if constexpr (%s)` agree on protocol events %s' % (t.get('text', '')[:60], sorted(et)[:3]), nontrivial=bool(et - {()} or ef - {()}), key=(f['qname'], t.get('line')))
            if et != ef:
                run.violation(f['qname'], 'arm-diff:' + re.sub(r'\s+', '', t.get('text', ''))[:40], '%s:%s' % (f['file'], t.get('line')),
                              'the two arms of `if constexpr (%s)` differ in protocol-relevant events: taken arm %s, skipped arm %s — behaviour would depend on the build configuration' % (t.get('text', '')[:80], sorted(et - ef)[:3], sorted(ef - et)[:3]))


def _path_projections(G, start, limit=4000):
    """set of protocol-event sequences along acyclic paths from `start` to the function exit"""
    out = set(); count = [0]
    def dfs(n, seen, acc):
        count[0] += 1
        if count[0] > limit: raise OverflowError
        p = _proto_of(G.ev[n])
        if p: acc = acc + (p,)
        succs = [m for m, lab in G.succ.get(n, []) if lab != 'exc']
        nxt = [m for m in succs if m not in seen]
        if not succs or not nxt:
            out.add(acc); return
        for m in nxt: dfs(m, seen | {m}, acc)
    try:
        dfs(start, frozenset([start]), ())
    except (OverflowError, RecursionError):
        return None
    return out


DEACT = {'ensureFrameDeactivated', 'deactivateAsyncStackFrame', 'resume', 'resume_done', 'popAsyncStackFrameCallee', 'popAsyncStackFrameFromCaller'}


@rule('R-CFGX-ASYNCSTACK', ['C20'], floor=8, configs=['d20', 'v20'])
def asyncstack_balance(run, F):
    """every ScopedAsyncStackRoot::activateFrame() is balanced before the root goes out of scope: in a constructor, the class destructor deactivates (RAII); elsewhere every path from the activation to the function's exit passes through ensureFrameDeactivated/deactivateAsyncStackFrame or resumes a coroutine (which deactivates on suspension); ScopedAsyncStackRoot saves the previous root in its constructor and restores it in its destructor"""
    n = 0
    for f in F.funcs:
        acts = [(b, i, e) for b, i, e in events(f) if e['k'] == 'call' and e['callee'].get('name') == 'activateFrame']   # on a ScopedAsyncStackRoot: must be balanced before that root dies
        if not acts: continue
        if f['name'] in ('activateFrame',): continue    # the wrapper itself
        G = Graph(f)
        for b, i, e in acts:
            node = (b['id'], i)
            n += 1
            run.inst(site(f, e['line']), 'activation is balanced', key=(f['qname'], e['line']))
            if f.get('ctor'):
                ds = [g for g in F.by_record.get(f['record'], []) if g.get('dtor')]
                if not ds or not any(ev['k'] == 'call' and ev['callee'].get('name') in DEACT for d in ds for _, _, ev in events(d)):
                    run.violation(f['qname'], 'raii-no-deactivate', '%s:%s' % (f['file'], e['line']),
                                  'constructor activates an async stack frame but the destructor of %s never deactivates it' % f['record'])
                continue
            posts = {x for x, ev in G.ev.items() if ev.get('k') == 'call' and ev['callee'].get('name') in DEACT}
            # the balancing call must come before the root object named in the activation dies (end of its scope)
            rootvar = (e['callee'].get('base') or '').split('.')[0]
            dies = {x for x, ev in G.ev.items() if ev.get('k') == 'scope_end' and ev.get('var') == rootvar} if rootvar and rootvar != 'this' else set()
            early = dies & G.reach([m for m, _ in G.succ.get(node, [])], blocked=posts)
            if early:
                run.violation(f['qname'], 'activate-outlives-root', '%s:%s' % (f['file'], e['line']),
                              'an async stack frame is activated on the local ScopedAsyncStackRoot `%s`, and a path reaches the end of that root\'s scope (line %s) without deactivating the frame or resuming the coroutine that owns it: the root is destroyed with its top frame still set (the debug build asserts, the release build leaves frame->stackRoot dangling)' % (rootvar, G.line(sorted(early)[0])))
            elif not G.must_reach_before_exit(node, posts):
                run.violation(f['qname'], 'activate-unbalanced', '%s:%s' % (f['file'], e['line']),
                              'an async stack frame is activated and a path reaches the end of the function without deactivating it or resuming the coroutine that owns it')
    # a frame's root is cleared by deactivation: it must be read before, not after
    for f in F.funcs:
        deacts = [(b, i, e) for b, i, e in events(f) if e['k'] == 'call' and e['callee'].get('name') == 'deactivateAsyncStackFrame' and e.get('args')]
        if not deacts or f['name'] == 'deactivateAsyncStackFrame': continue
        G = Graph(f)
        for b, i, e in deacts:
            def _pth(a):
                while isinstance(a, dict) and a.get('op') == 'un' and a.get('o') in ('*', '&'): a = a.get('e')
                return a.get('p') if isinstance(a, dict) and a.get('op') == 'path' else None
            px = _pth(e['args'][0])
            if not px: continue
            node = (b['id'], i)
            n += 1
            run.inst(site(f, e['line']), 'stack root of %s not read after its deactivation' % px, key=(f['qname'], 'stale-root', e['line']))
            react = {x for x, ev in G.ev.items() if ev.get('k') == 'call' and ev['callee'].get('name') in ('activateAsyncStackFrame', 'activateFrame') and any(_pth(a) == px for a in ev.get('args', []))}
            for x in G.reach([m for m, _ in G.succ.get(node, [])], blocked=react):
                ev = G.ev[x]
                if ev.get('k') == 'call' and ev['callee'].get('name') == 'getStackRoot' and (ev['callee'].get('base') or '') == px:
                    run.violation(f['qname'], 'root-read-after-deactivate', '%s:%s' % (f['file'], G.line(x)),
                                  '%s.getStackRoot() is read after deactivateAsyncStackFrame(%s) (line %s) cleared it: the re-activation dereferences a null root (only the debug/async-stack build executes this code)' % (px, px, e['line']))
                    break
    # ScopedAsyncStackRoot ctor/dtor pairing
    cs = [g for g in F.funcs if g.get('record') == 'unifex::detail::ScopedAsyncStackRoot' and g.get('ctor') and g.get('blocks')]
    ds = [g for g in F.funcs if g.get('record') == 'unifex::detail::ScopedAsyncStackRoot' and g.get('dtor') and g.get('blocks')]
    if not cs or not ds: raise Broken('ScopedAsyncStackRoot constructor/destructor not found')
    run.inst(site(cs[0]), 'root pushed in ctor, popped in dtor', key='root-raii')
    c_ok = any(e['k'] == 'assign' and last_field(e['lhs']) == 'nextRoot' for _, _, e in events(cs[0])) and any(e['k'] == 'call' and e['callee'].get('name') == 'set' for _, _, e in events(cs[0]))
    d_ok = any(e['k'] == 'call' and e['callee'].get('name') in ('set', 'set_relaxed') and any('nextRoot' in p for a in e.get('args', []) for p in expr_paths(a)) for _, _, e in events(ds[0]))
    if not c_ok:
        run.violation(cs[0]['qname'], 'root-push', '%s:%s' % (cs[0]['file'], cs[0]['line']), 'ScopedAsyncStackRoot constructor does not save the previous root and install itself')
    if not d_ok:
        run.violation(ds[0]['qname'], 'root-pop', '%s:%s' % (ds[0]['file'], ds[0]['line']), 'ScopedAsyncStackRoot destructor does not restore the previous root')
