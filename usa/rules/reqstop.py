"""R-REQSTOP — stop requests are issued where the algorithms decide the remaining work is unnecessary and
where the parent's request is forwarded (C04; streams C13; scopes/futures C08, C09).

tables/reqstop.json lists every function of the library from which a `request_stop()` on one of the
library's own stop sources is reached (callees inlined), with the mode observed on the pinned tree:
  must : every path from the function's entry to its exit issues the request
  may  : some path does (e.g. only the first error/done, only when the count was non-zero)
The table was generated (`python3 -m usa.rules.reqstop --freeze`) and read row by row: each row is a
place where the property requires a stop request (stop-callback bodies forwarding the parent's
request, first error/done in when_all, either completion in stop_when, trigger/cleanup in
take_until, drop/abandon of a future, cleanup/request_stop of a scope ...).  A function that no
longer reaches the request, or a `must` row that now has a path avoiding it, is a violation.
"""
import collections, json, os, re, sys

from ..core import rule, site, Broken, VERIF
from ..facts import last_field
from ..inline import Super, TooBig
from .atomics import norm_fn

TABLE = os.path.join(VERIF, 'tables', 'reqstop.json')

FILE_PROP = [
    (r'async_scope|nest\.|spawn_detached', 'C08'),
    (r'spawn_future', 'C09'),
    (r'take_until|stop_immediately|type_erased_stream|async_auto_reset_event', 'C13'),
    (r'task\.|at_coroutine_exit|await_transform', 'C10'),
    (r'detach_on_cancel|stop_on_request|cancellable|create_basic_sender', 'C19'),
    (r'inplace_stop_token|fused_stop_source', 'C03'),
    (r'any_sender_of', 'C18'),
    (r'.', 'C04'),
]


def prop_of_file(file):
    for rx, p in FILE_PROP:
        if re.search(rx, file): return p


def survey(F):
    gcache = {}
    rows = {}
    for f in F.funcs:
        if f.get('lambda') or not f.get('blocks') or f['file'].startswith('source/inplace_stop_token'): continue
        if f['qname'].startswith('unifex::inplace_stop_source::'): continue
        try:
            S = Super(F, f, [f['_family']], graph_cache=gcache, maxdepth=5)
        except TooBig:
            continue
        reqs = [n for n, e in enumerate(S.ev) if e.get('k') == 'call' and e['callee'].get('name') == 'request_stop' and e['callee'].get('kind') in ('member', 'dep_member')
                and S.fn[n]['_family'] == f['_family'] and not _is_self_call(S, n)]
        if not reqs: continue
        must = _must(S, set(reqs))
        key = (norm_fn(f['qname']), len(f.get('params', [])))
        targets = sorted({last_field(S.ev[n]['callee'].get('base', '')) or '?' for n in reqs})
        rows[key] = dict(f=f, mode='must' if must else 'may', targets=targets)
    return rows


def _is_self_call(S, n):
    # `this->request_stop()` / `op_.request_stop()` calls that were inlined are represented by their bodies; keep only
    # requests on stop-source objects (base names a source/stop member) or unresolved ones
    e = S.ev[n]
    return any(lab == 'call' for _, lab in S.succ.get(n, []))


def _must(S, posts):
    seen = set(); work = [S.entry]; exits = set(S.exits)
    while work:
        n = work.pop()
        if n in seen or n in posts: continue
        seen.add(n)
        if n in exits: return False
        for m, lab in S.succ.get(n, []):
            if lab != 'exc': work.append(m)
    return True


def load_table():
    with open(TABLE) as fh: return json.load(fh)['rows']


def _mk(prop, floor):
    rid = 'R-REQSTOP-' + prop
    @rule(rid, [prop], floor=floor)
    def r(run, F, prop=prop):
        tab = [x for x in load_table() if x['prop'] == prop and F.config in x['configs']]
        cur = survey(F)
        for x in tab:
            key = (x['fn'], x['nparams'])
            run.inst('%s %s' % (x['file'], x['fn']), 'reaches request_stop on %s (%s)' % (x['targets'], x['mode']), key=key)
            if key not in cur:
                exists = any(norm_fn(f['qname']) == x['fn'] and len(f.get('params', [])) == x['nparams'] for f in F.funcs)
                if not exists: run.broke('function %s of the stop-request table no longer exists' % x['fn']); continue
                f = next(f for f in F.funcs if norm_fn(f['qname']) == x['fn'] and len(f.get('params', [])) == x['nparams'])
                run.violation(f['qname'], 'no-request-stop', '%s:%s' % (f['file'], f['line']),
                              '%s no longer issues a stop request on %s on any path: the operations that should be cancelled here (losers of a race, children of a stopped parent, the spawned operation of a dropped future) keep running' % (x['fn'].replace('unifex::', ''), '/'.join(x['targets'])))
                continue
            c = cur[key]
            if x['mode'] == 'must' and c['mode'] != 'must':
                run.violation(c['f']['qname'], 'request-stop-skipped', '%s:%s' % (c['f']['file'], c['f']['line']),
                              '%s used to issue its stop request on %s on every path; now a path reaches the end of the function without it' % (x['fn'].replace('unifex::', ''), '/'.join(x['targets'])))
    r.__doc__ = 'every function from which the library issues request_stop() on one of its own stop sources (stop-callback bodies forwarding the parent\'s request; first error/done in when_all; completions in stop_when; trigger and cleanup in take_until; drop/abandon of a future; scope cleanup) still reaches that request, and those that issued it on every path still do (frozen table tables/reqstop.json, callees inlined)'
    from .. import core
    core.RULES[rid]['doc'] = r.__doc__
    return r


try:
    _cnt = collections.Counter(x['prop'] for x in load_table())
    for _p, _n in sorted(_cnt.items()):
        _mk(_p, max(1, _n // 2))
except FileNotFoundError:
    pass


def freeze():
    from .. import extract
    from ..facts import Facts
    cfgs = ['d20', 'd17', 'r17', 'r20', 'v20']
    files, _ = extract.extract(cfgs)
    rows = {}
    for c in cfgs:
        for key, v in survey(Facts(files[c], c)).items():
            f = v['f']
            if key not in rows:
                rows[key] = dict(prop=prop_of_file(f['file']), file=f['file'], fn=key[0], nparams=key[1], mode=v['mode'], targets=v['targets'], configs=[c])
            else:
                rows[key]['configs'].append(c)
                if rows[key]['mode'] != v['mode']: rows[key]['mode'] = 'may'
    out = sorted(rows.values(), key=lambda x: (x['file'], x['fn']))
    os.makedirs(os.path.dirname(TABLE), exist_ok=True)
    with open(TABLE, 'w') as fh: json.dump(dict(_doc='frozen stop-request table; see usa/rules/reqstop.py', rows=out), fh, indent=0)
    for x in out: print(x['prop'], x['mode'], x['fn'].replace('unifex::', ''), x['targets'])
    print(len(out), 'rows', collections.Counter(x['prop'] for x in out))


if __name__ == '__main__':
    if '--freeze' in sys.argv: freeze()
