"""R-VERBS — protocol actions of a class do not silently disappear.

tables/verbs.json freezes, per class (file + record; free functions by namespace) and per configuration, which
*protocol actions* there are (with site counts, for information) - (callee name, object it is applied to) - e.g.
(`stopSource_`.request_stop, 2), (`cv_`.notify_one, 1), (`sourceOp_`.destruct, 3), (close, 1), (epoll_ctl, 2).
Pure or transparent callees (move, forward, get, load, size, comparison helpers, traits) are not actions.

Violation: an action (verb) of the frozen table no longer has any site in its algorithm's namespace - a step of the
protocol was deleted (a notify, a stop request, a destruct, a close, a decrement, an unlink).  More sites, new actions,
actions moved between member functions of the same class (extract / inline helper), renamed locals and
restructured control flow are all silent; a class that disappeared is analysis-broken.
"""
import collections, json, os, re, sys

from ..core import rule, Broken, VERIF
from ..facts import events, last_field, TERMQ
from .polarity import norm_fn, file_props

TABLE = os.path.join(VERIF, 'tables', 'verbs.json')
NOT_ACTIONS = {
    'move', 'forward', 'addressof', 'get', 'as_const', 'declval', 'size', 'begin', 'end', 'empty', 'data', 'load', 'operator bool', 'operator*', 'operator->',
    'operator()', 'operator==', 'operator!=', 'operator<', 'operator[]', 'has_value', 'value', 'stop_requested', 'stop_possible', 'get_stop_token', 'get_scheduler',
    'get_allocator', 'get_receiver', 'get_token', 'min', 'max', 'count', 'now', 'static_cast', 'reinterpret_cast', 'launder', 'exchange', 'swap', 'tie', 'make_tuple',
    'current_exception', 'make_exception_ptr', 'get_execution_policy', 'get_return_address', 'read_return_address', 'to_value', 'from_value', 'ref_count', 'parent_op_ptr',
    'is_locked', 'is_running_on_io_thread', 'time_since_epoch', 'duration_cast', 'invoke', 'apply', 'visit', 'get_id', 'what', 'c_str', 'from_address', 'address',
    'promise', 'from_promise', 'done', 'handle', 'index', 'valid', 'try_lock', 'construct', 'construct_with', 'emplace', 'activate_union_member', 'activate_union_member_with',
    'connect', 'unlock', 'lock',      # constructions and locks are decided by the typestate / lock rules; RAII forms vary legitimately
}


def _cls(f):
    from ..facts import family_of
    c = f.get('record') or (f.get('parent_fn') or '').split('@')[0].rsplit('::', 1)[0] or f['qname'].rsplit('::', 1)[0]
    return family_of(norm_fn(c))


def actions(F):
    """{(file, class): Counter({action: sites})}"""
    out = collections.defaultdict(collections.Counter)
    for f in F.funcs:
        if not f.get('blocks'): continue
        k = (f['file'], _cls(f))
        for b, i, e in events(f):
            if e['k'] == 'call':
                if (e.get('macro') or '').startswith(('UNIFEX_ASSERT', 'assert')): continue
                q = e['callee'].get('qname') or ''
                nm = (e['callee'].get('name') or '').split('::')[-1]
                if q in TERMQ: nm = 'set_' + TERMQ[q]
                if not nm or nm in NOT_ACTIONS or nm.startswith(('<', 'is_', 'get_', 'operator')) or nm.endswith(('_v', '_t')) or not re.fullmatch(r'[A-Za-z_~]\w*', nm): continue
                base = e['callee'].get('base')
                obj = last_field(base) if base else ''
                if not obj and nm in ('set_value', 'set_error', 'set_done', 'set_next', 'start') and e.get('args') and isinstance(e['args'][0], dict):
                    obj = last_field((e['args'][0].get('p') or '').replace('()', '')) or ''
                if obj.endswith('()'): obj = obj[:-2]
                if re.fullmatch(r'[a-z]\w{0,2}|op|self|this|it|item|next|prev|cur|tmp|ptr|other|rhs', obj or ''): obj = '*'      # a local: name is free
                out[k]['%s.%s' % (obj or '-', nm)] += 1
            elif e['k'] == 'delete':
                out[k]['delete'] += 1
            elif e['k'] == 'throw':
                out[k]['throw'] += 1
    return out


def _check(run, F, prop, fp):
    with open(TABLE) as fh: rows = [r for r in json.load(fh)['rows'] if prop in fp.get(r['file'], ())]
    if not rows: raise Broken('no action rows for ' + prop)
    cur = actions(F)
    for r in rows:
        want = r['actions'].get(F.config) or r['actions'].get('*')
        if want is None: continue
        k = (r['file'], r['cls'])
        if k not in cur:
            run.broke('class %s (%s) of the action table no longer exists' % (r['cls'], r['file'])); continue
        have = cur[k]
        run.inst('%s %s' % (r['file'], r['cls']), '%d protocol actions (%d sites)' % (len(want), sum(want.values())), key=k)
        # a local's name is free: compare `*.verb` and named-object entries of the same verb together when the named one vanished
        have_verbs = {(x.split('.', 1)[1] if '.' in x else x) for x in have}
        for a, nwant in sorted(want.items()):
            verb = a.split('.', 1)[1] if '.' in a else a
            if verb in have_verbs: continue          # presence only: merged duplicates and renamed objects are silent
            run.violation(r['cls'], 'action-dropped:' + verb, '%s:1' % r['file'],
                          '%s no longer performs `%s` anywhere (the frozen protocol table has %d site(s) of `%s`): a step of the protocol (a notification, stop request, destruction, release, decrement, unlink ...) was deleted' % (
                              r['cls'].replace('unifex::', ''), verb, nwant, a))


def _mk(prop, floor, fp):
    rid = 'R-VERBS-' + prop
    @rule(rid, [prop], floor=floor)
    def r(run, F, prop=prop): _check(run, F, prop, fp)
    r.__doc__ = 'for every class in the files anchored by %s, each protocol action (request_stop, notify, destruct, deallocate, close, reset, release, remove, decrement, completion ...) frozen in tables/verbs.json still has a call site somewhere in the namespace of that algorithm: no step of the protocol was deleted altogether (added or merged sites, actions moved between functions and classes of the algorithm, renamed objects are silent)' % prop
    from .. import core
    core.RULES[rid]['doc'] = r.__doc__


try:
    _fp = file_props()
    with open(TABLE) as _fh: _rows = json.load(_fh)['rows']
    _cnt = collections.defaultdict(collections.Counter)
    for _r in _rows:
        for _p in _fp.get(_r['file'], ()):
            for _c in ('d20', 'd17', 'r17', 'r20', 'v20'):
                if (_r['actions'].get(_c) or _r['actions'].get('*')) is not None: _cnt[_p][_c] += 1
    for _p, _cc in sorted(_cnt.items()): _mk(_p, min(_cc.get(_c, 0) for _c in ('d20', 'd17', 'r17', 'r20', 'v20')) // 2, _fp)
except FileNotFoundError:
    pass


def freeze():
    from .. import extract
    from ..facts import Facts
    cfgs = ['d20', 'd17', 'r17', 'r20', 'v20']
    files, _ = extract.extract(cfgs)
    per = {c: actions(Facts(files[c], c)) for c in cfgs}
    rows = []
    for k in sorted(set(k for c in cfgs for k in per[c])):
        acts = {c: dict(per[c][k]) for c in cfgs if k in per[c] and per[c][k]}
        if not acts: continue
        vals = list(acts.values())
        if len(acts) == len(cfgs) and all(v == vals[0] for v in vals): acts = {'*': vals[0]}
        rows.append(dict(file=k[0], cls=k[1], actions=acts))
    with open(TABLE, 'w') as fh: json.dump(dict(_doc='frozen protocol actions per class; see usa/rules/verbs.py', rows=rows), fh, indent=0)
    fp = file_props()
    print(len(rows), 'classes;', sum(len(next(iter(r['actions'].values()))) for r in rows), 'actions; unowned files:', sorted({r['file'] for r in rows if not fp.get(r['file'])})[:8])


if __name__ == '__main__':
    if '--freeze' in sys.argv: freeze()
