"""R-EXC-PAIR — a raw acquisition followed by an operation that may throw is protected (C02, C12, C08).

Two kinds of acquisition are derived from the code:
  * raw memory:  `allocate(...)` on an allocator / allocator_traits — released by `deallocate`
  * scope admission: a successful `try_record_start()` — released by `record_done()` / `record_completion()`
    or by handing the unit of work to an operation that is then started
Between the acquisition and the point where ownership has been handed on (the end of the function for
memory owned by the object under construction; `unifex::start` for admissions), every call that may
throw must be covered by a scope_guard whose body releases, or by a try block whose handler
releases; otherwise an exception leaks the block / leaves the scope's count incremented forever
(join never completes).
"""
import re

from ..core import rule, site, Broken
from ..facts import Graph, events, may_throw, last_field, guard_vars

# may-throw-by-signature calls that cannot throw here, one row per (function, callee) with the reason
THROW_EXEMPT = {
    ('unifex::_spawn_future::_spawn_future_fn::operator()', 'construct'):
        'std::allocator_traits::construct of the spawned-operation shell whose constructor is noexcept (the following, throwing steps are inside the try block)',
}
RELEASE_RE = re.compile(r'dealloc|delete|deleter|destroy|record_done|record_completion|free')

NOTHROW_EXTRA = {'get', 'release', 'reset', 'start', 'move', 'forward', 'get_allocator', 'get_token', 'get_stop_token', 'addressof',
                 'operator->', 'operator*', 'launder', 'static_cast', 'destruct', 'deallocate', 'record_done', 'record_completion',
                 'try_record_start', 'exchange', 'load', 'store', 'fetch_add', 'fetch_sub', 'size', 'empty', 'construct_at', 'to_address',
                 'pointer_to', 'max', 'min', 'get_deleter', 'swap', 'terminate', 'unlock', 'destroy', 'destroy_at'}


def _lambda_of(F, f, G, decl_event):
    for v in decl_event['vars']:
        p = (v.get('init') or {}).get('p', '') or ''
        m = re.match(r'<lambda@(\d+)>', p)
        if m:
            for g in F.funcs:
                if g.get('lambda') and g['line'] == int(m.group(1)) and g['file'] == f['file'] and (g.get('parent_fn') or '').split('@')[0] == f['qname']:
                    return g
    return None


def _throwers(F, G, start, stop_nodes=()):
    out = []
    for n in G.reach([m for m, lab in G.succ.get(start, []) if lab != 'exc'], blocked=set(stop_nodes), skip_exc=True):
        e = G.ev[n]
        if e.get('k') == 'call' and may_throw(e) and e['callee'].get('name') not in NOTHROW_EXTRA and not (e.get('macro') or '').startswith(('UNIFEX_ASSERT', 'assert')):
            # calls of lambdas / function objects defined locally are skipped unless they contain throwing calls themselves (kept simple: counted)
            out.append(n)
    return out


def _covered(F, f, G, acq, thrower, release_names):
    """is `thrower` protected by a guard (declared after acq, before thrower) or a try whose handler releases?"""
    gv = guard_vars(f)
    for n, e in G.ev.items():
        if e.get('k') == 'decl' and any(v['var'] in gv for v in e['vars']):
            if n in G.reach(acq) and thrower in G.reach(n) and G.dominated_by_any(thrower, {n}):
                lam = _lambda_of(F, f, G, e)
                if lam and any(ev['k'] == 'call' and RELEASE_RE.search(ev['callee'].get('name') or '') for _, _, ev in events(lam)):
                    rel = [x for x, ev in G.ev.items() if ev.get('k') == 'call' and ev['callee'].get('name') == 'release' and ev['callee'].get('base') in [v['var'] for v in e['vars']]]
                    if not (rel and G.dominated_by_any(thrower, set(rel))): return True
    ln = G.ev[thrower].get('line') or 0
    for tr in f.get('try', []):
        if tr['try_begin'] <= ln <= tr['try_end']:
            for h in tr['handlers']:
                for n, e in G.ev.items():
                    if e.get('k') == 'call' and (e['callee'].get('name') in release_names or RELEASE_RE.search(e['callee'].get('name') or '')) and h['begin'] <= (e.get('line') or 0) <= h['end']: return True
    return False


@rule('R-EXC-PAIR', ['C02', 'C12', 'C08', 'C09', 'C18'], floor=4)
def exc_pair(run, F):
    """after a raw allocator `allocate()` or a successful scope admission `try_record_start()`, every call that may throw before ownership is handed on is covered by a scope_guard or try-handler that releases (deallocate / record_done): an exception from connect(), a constructor or an allocation cannot leak the block or leave the scope's count incremented"""
    n_inst = 0
    for f in F.funcs:
        if not f.get('blocks'): continue
        acqs = [(b, i, e) for b, i, e in events(f) if e['k'] == 'call' and e['callee'].get('name') in ('allocate', 'try_record_start')]
        # pure counter increments inside a try block: released by the matching fetch_sub in the handler
        incs = [(b, i, e) for b, i, e in events(f) if e['k'] == 'call' and e['callee'].get('name') == 'fetch_add' and f.get('try')
                and any(tr['try_begin'] <= (e.get('line') or 0) <= tr['try_end'] for tr in f['try'])]
        if incs and not acqs:
            G = Graph(f)
            used = set()
            for n2, e2 in G.ev.items():
                if e2.get('k') == 'term' and e2.get('cond') is not None:
                    from ..facts import expr_eids
                    used.update(expr_eids(e2['cond']))
                if e2.get('k') == 'decl':
                    for v in e2['vars']:
                        from ..facts import expr_eids
                        used.update(expr_eids(v.get('init')))
            for b, i, e in incs:
                if e.get('eid') in used: continue          # an election, not a plain count
                node = (b['id'], i); member = last_field(e['callee'].get('base', ''))
                tr = max([t for t in f['try'] if t['try_begin'] <= e['line'] <= t['try_end']], key=lambda t: t['try_begin'])
                thr = [x for x in G.reach([m for m, lab in G.succ.get(node, []) if lab != 'exc'], skip_exc=True)
                       if G.ev[x].get('k') in ('call', 'construct') and tr['try_begin'] <= (G.ev[x].get('line') or 0) <= tr['try_end']
                       and (G.ev[x].get('k') == 'construct' and 'thread' in (G.ev[x].get('type') or '') or (G.ev[x].get('k') == 'call' and may_throw(G.ev[x]) and G.ev[x]['callee'].get('name') not in NOTHROW_EXTRA))]
                run.inst(site(f, e['line']), 'increment of %s inside try followed by %d may-throw step(s)' % (member, len(thr)), nontrivial=bool(thr), key=(f['qname'], member, 'inc'))
                if thr:
                    handled = any(ev.get('k') == 'call' and ev['callee'].get('name') == 'fetch_sub' and last_field(ev['callee'].get('base', '')) == member
                                  and any(h['begin'] <= (ev.get('line') or 0) <= h['end'] for h in tr['handlers']) for ev in G.ev.values())
                    if not handled:
                        x = thr[0]
                        run.violation(f['qname'], 'unprotected-throw-after-increment:' + member, '%s:%s' % (f['file'], G.line(x)),
                                      '%s is incremented and a later step in the same try block may throw, but the handler does not decrement it: after such a failure the count stays raised for work that never started (whoever waits for it to reach zero waits forever)' % member)
            continue
        if not acqs: continue
        if f['name'] in ('allocate', 'try_record_start'): continue      # the primitives themselves / forwarding wrappers
        G = Graph(f)
        for b, i, e in acqs:
            node = (b['id'], i)
            nm = e['callee']['name']
            if nm == 'allocate':
                # only raw allocations: result kept in a raw pointer, not adopted by a smart pointer in the same expression
                rel = {'deallocate'}
                start = node
                stops = [x for x, ev in G.ev.items() if ev.get('k') == 'call' and ev['callee'].get('name') in ('deallocate',)]
                thr = _throwers(F, G, start, stops)
                what = 'the block obtained from allocate() is leaked'
            else:
                rel = {'record_done', 'record_completion'}
                # success edge of the admission test
                from ..lockflow import _truth_of_call
                start = None
                for t, tt, tf in G.branch_edges(lambda x: e['eid'] in __import__('usa.facts', fromlist=['expr_eids']).expr_eids(x['cond'])):
                    pol = _truth_of_call(G.ev[t]['cond'], e['eid'])
                    if pol is not None: start = tt if pol else tf
                if start is None: continue
                stops = [x for x, ev in G.ev.items() if ev.get('k') == 'call' and (ev['callee'].get('qname') == 'unifex::start' or ev['callee'].get('name') in rel)]
                thr = [x for x in G.reach(start, blocked=set(stops), skip_exc=True)
                       if G.ev[x].get('k') == 'call' and may_throw(G.ev[x]) and G.ev[x]['callee'].get('name') not in NOTHROW_EXTRA]
                what = 'the scope keeps counting a unit of work that was never started, so its join never completes'
            n_inst += 1
            run.inst(site(f, e['line']), '%s followed by %d may-throw call(s), all covered' % (nm, len(thr)), nontrivial=bool(thr), key=(f['qname'], nm, e['line']))
            for x in thr:
                if (f['qname'], G.ev[x]['callee'].get('name')) in THROW_EXEMPT: continue
                if not _covered(F, f, G, node, x, rel):
                    ex = G.ev[x]
                    run.violation(f['qname'], 'unprotected-throw-after-%s:%s' % (nm, ex['callee'].get('name')), '%s:%s' % (f['file'], G.line(x)),
                                  'after %s at line %s, %s() may throw and neither a scope_guard nor a try-handler releases: if it throws, %s' % (nm, e['line'], ex['callee'].get('name'), what))
                    break
