"""R-CHAN — channel matrix of every child receiver (C05, C13): which outer completion channels (and
which successor starts) each handler of each receiver class can reach, against a frozen table.

tables/channels.json was generated from the pinned tree (`python3 -m usa.rules.chan --freeze`) and
checked against doc/api_reference.md and the code: e.g. then: value->{value,error} error->{error}
done->{done}; let_done: done->{start successor, error}; materialize: error/done->{value,error}.
A handler that can reach a channel not in its row (error forwarded as done, done swallowed into
value, ...) or can no longer reach one that the row requires is a violation; a class or handler
that disappeared is analysis-broken; new classes must be added to the table (analysis-broken until
then), so the table can never silently go stale.
"""
import collections, json, os, re, sys

from ..core import rule, site, Broken, VERIF
from ..facts import last_field
from ..inline import Super, TooBig
from .c12_queries import receiver_records

TABLE = os.path.join(VERIF, 'tables', 'channels.json')
HANDLERS = ('set_value', 'set_error', 'set_done')


def norm_rec(q):
    return re.sub(r'<[^<>]*>', '', q)


def matrix(F):
    gcache = {}
    out = {}
    for r in receiver_records(F):
        fam = r['_family']
        row = {}
        for h in F.by_record.get(r['qname'], []):
            if h['name'] not in HANDLERS or not h.get('blocks') or h.get('lambda'): continue
            try:
                S = Super(F, h, [fam], graph_cache=gcache)
            except TooBig:
                row.setdefault(h['name'], set()).add('<too-big>'); continue
            chans = set()
            for n, ch, p in S.terminals():
                chans.add(ch)
            for n, e in enumerate(S.ev):
                if e.get('k') != 'call': continue
                q = e['callee'].get('qname'); nm = e['callee'].get('name')
                if q == 'unifex::start': chans.add('start-child')
                elif nm in ('resume', 'resume_done') : chans.add(nm)
                elif nm == 'terminate': chans.add('terminate')
            row.setdefault(h['name'], set()).update(chans)
        if row: out[norm_rec(r['qname'])] = (r, {k: sorted(v) for k, v in row.items()})
    return out


def load_table():
    with open(TABLE) as fh: return json.load(fh)['classes']


@rule('R-CHAN', ['C05', 'C13'], floor=120)
def chan(run, F):
    """for every child-receiver class, the set of outer completion channels, child starts, coroutine resumptions and terminate() calls reachable from each of its set_value/set_error/set_done handlers (inlined supergraph) equals its row in the frozen channel matrix: results are forwarded on the documented channel and no channel is swallowed or invented"""
    tab = load_table()
    cur = matrix(F)
    for q, row in sorted(tab.items()):
        if F.config not in row.get('configs', [F.config]):
            run.inst(q, 'class is compiled out in this configuration', nontrivial=False, key=(q, 'n/a')); continue
        if q not in cur:
            run.broke('receiver class %s of the channel matrix no longer exists' % q); continue
        r, have = cur[q]
        for h, want in sorted(row['handlers'].items()):
            got = have.get(h)
            if got is None:
                run.broke('%s::%s of the channel matrix no longer exists' % (q, h)); continue
            run.inst('%s:%s %s::%s' % (r['file'], r['line'], q, h), '%s -> %s' % (h, want), key=(q, h))
            extra = sorted(set(got) - set(want)); missing = sorted(set(want) - set(got))
            if extra:
                run.violation(q + '::' + h, 'channel-extra:' + ','.join(extra), '%s:%s' % (r['file'], r['line']),
                              '%s of %s can now reach %s, which its documented channel mapping (%s) does not contain: a result is delivered on the wrong channel' % (h, q.replace('unifex::', ''), extra, want))
            if missing:
                run.violation(q + '::' + h, 'channel-missing:' + ','.join(missing), '%s:%s' % (r['file'], r['line']),
                              '%s of %s can no longer reach %s (documented mapping %s): that outcome is swallowed or redirected' % (h, q.replace('unifex::', ''), missing, want))
    for q in sorted(set(cur) - set(tab)):
        run.broke('receiver class %s is not in the channel matrix (tables/channels.json): add its row' % q)


def freeze():
    from .. import extract
    from ..facts import Facts
    cfgs = ['d20', 'd17', 'r17', 'r20', 'v20']
    files, _ = extract.extract(cfgs)
    ms = {c: matrix(Facts(files[c], c)) for c in cfgs}
    classes = {}
    for c in cfgs:
        for q, (r, row) in sorted(ms[c].items()):
            if q not in classes: classes[q] = dict(file=r['file'], handlers=row, configs=[c])
            else:
                classes[q]['configs'].append(c)
                if classes[q]['handlers'] != row: print('DIFFERS between configurations', q, c, classes[q]['handlers'], row)
    os.makedirs(os.path.dirname(TABLE), exist_ok=True)
    with open(TABLE, 'w') as fh: json.dump(dict(_doc='frozen channel matrix; see usa/rules/chan.py', classes=classes), fh, indent=1)
    print(len(classes), 'classes')


if __name__ == '__main__':
    if '--freeze' in sys.argv: freeze()
