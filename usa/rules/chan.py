"""R-CHAN — channel matrix of every child receiver (C05, C13): which outer completion channels (and
which successor starts) each handler of each receiver class can reach, against a frozen table.

tables/channels.json was generated from the pinned tree (`python3 -m usa.rules.chan --freeze`) and
checked against doc/api_reference.md and the code: e.g. then: value->{value,error} error->{error}
done->{done}; let_done: done->{start successor, error}; materialize: error/done->{value,error}.
A handler that can reach a channel not in its row (error forwarded as done, done swallowed into
value, ...) or can no longer reach one that the row requires is a violation; a class or handler
that disappeared is analysis-broken; new classes must be added to the table (analysis-broken until
then), so the table can never silently go stale.
"""
import collections, json, os, re, sys

from ..core import rule, site, Broken, VERIF
from ..facts import last_field
from ..inline import Super, TooBig
from .c12_queries import receiver_records

TABLE = os.path.join(VERIF, 'tables', 'channels.json')
HANDLERS = ('set_value', 'set_error', 'set_done', 'set_next')


def norm_rec(q):
    return re.sub(r'<[^<>]*>', '', q)


def matrix(F):
    gcache = {}
    out = {}
    for r in receiver_records(F):
        fam = r['_family']
        row = {}
        for h in F.by_record.get(r['qname'], []):
            if h['name'] not in HANDLERS or not h.get('blocks') or h.get('lambda'): continue
            try:
                S = Super(F, h, [fam], graph_cache=gcache)
            except TooBig:
                row.setdefault(h['name'], set()).add('<too-big>'); continue
            chans = set()
            for n, ch, p in S.terminals():
                chans.add(ch)
            for n, e in enumerate(S.ev):
                if e.get('k') != 'call': continue
                q = e['callee'].get('qname'); nm = e['callee'].get('name')
                if q == 'unifex::start': chans.add('start-child')
                elif nm in ('resume', 'resume_done') : chans.add(nm)
                elif nm == 'terminate': chans.add('terminate')
            row.setdefault(h['name'], set()).update(chans)
        if row: out[norm_rec(r['qname'])] = (r, {k: sorted(v) for k, v in row.items()})
    return out


def load_table():
    with open(TABLE) as fh: return json.load(fh)['classes']


@rule('R-CHAN', ['C05', 'C13'], floor=120)
def chan(run, F):
    """for every child-receiver class, the set of outer completion channels, child starts, coroutine resumptions and terminate() calls reachable from each of its set_value/set_error/set_done handlers (inlined supergraph) equals its row in the frozen channel matrix: results are forwarded on the documented channel and no channel is swallowed or invented"""
    tab = load_table()
    cur = matrix(F)
    for q, row in sorted(tab.items()):
        if F.config not in row.get('configs', [F.config]):
            run.inst(q, 'class is compiled out in this configuration', nontrivial=False, key=(q, 'n/a')); continue
        if q not in cur:
            run.broke('receiver class %s of the channel matrix no longer exists' % q); continue
        r, have = cur[q]
        for h, want in sorted(row['handlers'].items()):
            got = have.get(h)
            if got is None:
                run.broke('%s::%s of the channel matrix no longer exists' % (q, h)); continue
            run.inst('%s:%s %s::%s' % (r['file'], r['line'], q, h), '%s -> %s' % (h, want), key=(q, h))
            extra = sorted(set(got) - set(want)); missing = sorted(set(want) - set(got))
            if extra:
                run.violation(q + '::' + h, 'channel-extra:' + ','.join(extra), '%s:%s' % (r['file'], r['line']),
                              '%s of %s can now reach %s, which its documented channel mapping (%s) does not contain: a result is delivered on the wrong channel' % (h, q.replace('unifex::', ''), extra, want))
            if missing:
                run.violation(q + '::' + h, 'channel-missing:' + ','.join(missing), '%s:%s' % (r['file'], r['line']),
                              '%s of %s can no longer reach %s (documented mapping %s): that outcome is swallowed or redirected' % (h, q.replace('unifex::', ''), missing, want))
    for q in sorted(set(cur) - set(tab)):
        run.broke('receiver class %s is not in the channel matrix (tables/channels.json): add its row' % q)


# ---------------------------------------------------------------------------------------------- R-CHAN-CTX
CTX_TABLE = os.path.join(VERIF, 'tables', 'channel_ctx.json')


def _try_has_connect(F, g, line):
    """does the innermost try block of g around `line` (lambdas written inside it included) connect a successor?"""
    inner = [tr for tr in g.get('try', []) if tr['try_begin'] <= line <= tr['try_end']]
    if not inner: return False
    tr = max(inner, key=lambda x: x['try_begin'])
    lo, hi = tr['try_begin'], tr['try_end']
    for fn in [g] + [l for l in F.lambdas_of(g) if lo <= l['line'] <= hi]:
        for b in fn.get('blocks', []):
            for e in b['elems']:
                if e['k'] != 'call': continue
                if fn is g and not (lo <= (e.get('line') or 0) <= hi): continue
                if e['callee'].get('qname') == 'unifex::connect' or (e['callee'].get('name') or '').split('::')[-1] == 'connect': return True
    return False


def ctx_matrix(F):
    """per receiver class and handler: {channel@context}; context = plain (reachable without any exception),
    exc-successor (last exceptional edge leaves a try block that connects a successor operation: "the next stage
    could not be created") or exc-local (last exceptional edge leaves a try block without a connect: a user
    callable or a value copy threw)"""
    gcache = {}
    out = {}
    for r in receiver_records(F):
        fam = r['_family']; row = {}
        for h in F.by_record.get(r['qname'], []):
            if h['name'] not in HANDLERS or not h.get('blocks') or h.get('lambda'): continue
            try:
                S = Super(F, h, [fam], graph_cache=gcache)
            except TooBig:
                row.setdefault(h['name'], set()).add('<too-big>'); continue
            terms = S.terminals()
            if not terms: continue
            plain = S.reach(S.entry, skip_exc=True)
            after = {}
            kinds = []
            for a, lst in S.succ.items():
                if S.ev[a].get('k') != 'call': continue
                for b, lab in lst:
                    if lab != 'exc': continue
                    if b not in after: after[b] = S.reach(b, skip_exc=True)
                    kinds.append((b, 'exc-successor' if _try_has_connect(F, S.fn[a], S.ev[a].get('line') or 0) else 'exc-local'))
            for n, ch, p in terms:
                if n in plain: row.setdefault(h['name'], set()).add(ch + '@plain')
                for b, kd in kinds:
                    if n in after[b]: row.setdefault(h['name'], set()).add(ch + '@' + kd)
        if row: out[norm_rec(r['qname'])] = (r, {k: sorted(v) for k, v in row.items()})
    return out


@rule('R-CHAN-CTX', ['C05', 'C13'], floor=120)
def chan_ctx(run, F):
    """for every child-receiver handler, each reachable outer completion is classified by the condition under which it is reached - plain control flow, the handler of a try block that connects the successor operation ("next stage could not be created"), or the handler of a try block without a connect (a callable or a copy threw) - and the set of (channel, condition) pairs equals the frozen row: a stage is not skipped and an error is not delivered past the step that must run first (e.g. finally's completion sender)"""
    with open(CTX_TABLE) as fh: tab = json.load(fh)['classes']
    cur = ctx_matrix(F)
    for q, row in sorted(tab.items()):
        if F.config not in row.get('configs', [F.config]):
            run.inst(q, 'class is compiled out in this configuration', nontrivial=False, key=(q, 'n/a')); continue
        if q not in cur:
            run.broke('receiver class %s of the channel-context matrix no longer exists' % q); continue
        r, have = cur[q]
        for h, want in sorted(row['handlers'].items()):
            got = have.get(h)
            if got is None:
                run.broke('%s::%s of the channel-context matrix no longer exists' % (q, h)); continue
            run.inst('%s:%s %s::%s' % (r['file'], r['line'], q, h), '%s -> %s' % (h, want), key=(q, h))
            extra = sorted(set(got) - set(want)); missing = sorted(set(want) - set(got))
            if extra:
                run.violation(q + '::' + h, 'ctx-extra:' + ','.join(extra), '%s:%s' % (r['file'], r['line']),
                              '%s of %s now reaches %s (frozen: %s): a completion is delivered under a condition under which the documented protocol first runs another step (or on plain flow where it was an error path only)' % (h, q.replace('unifex::', ''), extra, want))
            if missing:
                run.violation(q + '::' + h, 'ctx-missing:' + ','.join(missing), '%s:%s' % (r['file'], r['line']),
                              '%s of %s no longer reaches %s (frozen: %s): that outcome is no longer reported under this condition' % (h, q.replace('unifex::', ''), missing, want))
    for q in sorted(set(cur) - set(tab)):
        run.broke('receiver class %s is not in the channel-context matrix (tables/channel_ctx.json): add its row' % q)


def _freeze_generic(fn, path, doc):
    from .. import extract
    from ..facts import Facts
    cfgs = ['d20', 'd17', 'r17', 'r20', 'v20']
    files, _ = extract.extract(cfgs)
    ms = {c: fn(Facts(files[c], c)) for c in cfgs}
    classes = {}
    for c in cfgs:
        for q, (r, row) in sorted(ms[c].items()):
            if q not in classes: classes[q] = dict(file=r['file'], handlers=row, configs=[c])
            else:
                classes[q]['configs'].append(c)
                if classes[q]['handlers'] != row: print('DIFFERS between configurations', q, c, classes[q]['handlers'], row)
    with open(path, 'w') as fh: json.dump(dict(_doc=doc, classes=classes), fh, indent=1)
    print(len(classes), 'classes ->', path)


def freeze():
    from .. import extract
    from ..facts import Facts
    cfgs = ['d20', 'd17', 'r17', 'r20', 'v20']
    files, _ = extract.extract(cfgs)
    ms = {c: matrix(Facts(files[c], c)) for c in cfgs}
    classes = {}
    for c in cfgs:
        for q, (r, row) in sorted(ms[c].items()):
            if q not in classes: classes[q] = dict(file=r['file'], handlers=row, configs=[c])
            else:
                classes[q]['configs'].append(c)
                if classes[q]['handlers'] != row: print('DIFFERS between configurations', q, c, classes[q]['handlers'], row)
    os.makedirs(os.path.dirname(TABLE), exist_ok=True)
    with open(TABLE, 'w') as fh: json.dump(dict(_doc='frozen channel matrix; see usa/rules/chan.py', classes=classes), fh, indent=1)
    print(len(classes), 'classes')


if __name__ == '__main__':
    if '--freeze' in sys.argv: freeze()
    if '--freeze-ctx' in sys.argv: _freeze_generic(ctx_matrix, CTX_TABLE, 'frozen channel-context matrix; see usa/rules/chan.py (R-CHAN-CTX)')
