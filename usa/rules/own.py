"""R-OWN — single-owner handle classes (C08 scope_reference, C10 coro holders, C14 descriptors/mappings, C18
any_unique, C19 canary guard): the destructor releases iff the handle is valid, and a move leaves the source empty."""
import re

from ..core import rule, site, Broken
from ..facts import Graph, events, last_field, expr_paths

FILE_PROP = [(r'canary|cancellable|create_', 'C19'), (r'task|coroutine|continuations|at_coroutine_exit|connect_awaitable', 'C10'), (r'linux/|mmap|file_descriptor', 'C14'),
             (r'any_unique|any_object|any_heap|type_erase', 'C18'), (r'async_scope|nest|spawn', 'C08'), (r'.', 'C02')]


def handle_classes(F):
    """records whose destructor acts on a pointer/handle member only when it is non-null/valid"""
    out = []
    for f in F.funcs:
        if not f.get('dtor') or not f.get('blocks') or not f.get('record'): continue
        rec = (F.rec_by_q.get(f['record']) or [None])[0]
        if rec is None: continue
        ptrs = {fl['name'] for fl in rec['fields'] if not fl.get('static') and (fl.get('type', '').endswith('*') or re.search(r'coroutine_handle|\bint\b', fl.get('type', '')))}
        if not ptrs: continue
        G = Graph(f)
        for t, e in G.ev.items():
            if e.get('k') != 'term' or e.get('cond') is None: continue
            c = e['cond']
            while isinstance(c, dict) and c.get('op') == 'un': c = c.get('e')
            comps = set()
            for pth in expr_paths(e['cond']):
                for cmp_ in pth.split('.'):
                    comps.add(cmp_)
                    if cmp_.endswith('()'):     # a predicate method of the class (valid(), operator bool()): look through it
                        for g in F.by_record.get(f['record'], []):
                            if g['name'] == cmp_[:-2]:
                                for _, _, ev in events(g):
                                    if ev['k'] == 'ret':
                                        for p2 in expr_paths(ev.get('v')): comps.update(p2.split('.'))
            hit = [p for p in ptrs if p in comps]
            if hit:
                # the guarded branch must do something (a call) with the member
                out.append((rec, f, hit[0]))
                break
    return out


def _mk(prop):
    rid = 'R-OWN-' + prop
    @rule(rid, [prop], floor=1, configs=(['d20', 'r20', 'v20'] if prop == 'C10' else None))
    def r(run, F, prop=prop):
        n = 0
        for rec, dtor, m in handle_classes(F):
            p = next(pp for rx, pp in FILE_PROP if re.search(rx, rec['file']))
            if p != prop: continue
            q = rec['qname']; short = q.split('::')[-1]
            # declared move constructors
            mctors = [mm for mm in rec['methods'] if mm['name'] == short and len(mm['ptypes']) == 1 and mm['ptypes'][0].endswith('&&') and short in mm['ptypes'][0]]
            if not mctors: continue
            n += 1
            run.inst('%s:%s %s' % (rec['file'], rec['line'], q), 'move constructor empties the source handle %s' % m, key=(q, m))
            for mm in mctors:
                if mm.get('deleted'): continue
                bodies = [g for g in F.by_record.get(q, []) if g.get('ctor') and len(g.get('params', [])) == 1 and g['params'][0]['type'].endswith('&&') and g.get('blocks')]
                if not bodies:
                    run.violation(q, 'move-defaulted:' + m, '%s:%s' % (rec['file'], mm['line']),
                                  'the move constructor of %s is defaulted/bodyless although its destructor releases through `%s` when it is non-null: the moved-from object keeps the handle, so the resource is released twice (or a guard is dropped early)' % (q.replace('unifex::', ''), m))
                    continue
                for g in bodies:
                    other = g['params'][0]['name']
                    ok = False
                    for b, i, e in events(g):
                        txt = []
                        if e['k'] == 'call' and e['callee'].get('name') in ('exchange', 'swap'):
                            txt = [a.get('p', '') for a in e.get('args', []) if isinstance(a, dict)]
                            if any(t == '%s.%s' % (other, m) for t in txt): ok = True
                        if e['k'] == 'assign' and e['lhs'] == '%s.%s' % (other, m): ok = True
                        if e['k'] == 'call' and e['callee'].get('name') in ('release', 'reset') and e['callee'].get('base') in (other, '%s.%s' % (other, m)): ok = True
                        if e['k'] == 'init':
                            for pth in expr_paths(e.get('v')):
                                if pth.startswith(other) and ('exchange' in pth or 'release' in pth): ok = True
                    if not ok:
                        run.violation(g['qname'], 'move-keeps-handle:' + m, '%s:%s' % (g['file'], g['line']),
                                      'the move constructor of %s copies `%s` without clearing it in the source: both objects then own the handle and both destructors release it' % (q.replace('unifex::', ''), m))
        if n == 0: raise Broken('no movable handle class found for ' + prop)
    r.__doc__ = 'for every class whose destructor releases a resource only when a pointer/handle member is set (canary guard, coroutine holders, scope references, descriptors, any_unique), the move constructor is user-written and clears that member in the source (exchange/assign/release): a defaulted or copying move leaves two owners'
    from .. import core
    core.RULES[rid]['doc'] = r.__doc__
    return r


for _p in ('C19', 'C10', 'C14', 'C18', 'C08'):
    _mk(_p)
