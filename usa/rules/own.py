"""R-OWN — single-owner handle classes (C08 scope_reference, C10 coro holders, C14 descriptors/mappings, C18
any_unique, C19 canary guard): the destructor releases iff the handle is valid, and a move leaves the source empty."""
import re

from ..core import rule, site, Broken
from ..facts import Graph, events, last_field, expr_paths

FILE_PROP = [(r'canary|cancellable|create_', 'C19'), (r'task|coroutine|continuations|at_coroutine_exit|connect_awaitable', 'C10'), (r'linux/|mmap|file_descriptor', 'C14'),
             (r'any_unique|any_object|any_heap|type_erase', 'C18'), (r'async_scope|nest|spawn', 'C08'), (r'.', 'C02')]


def handle_classes(F):
    """records whose destructor acts on a pointer/handle member only when it is non-null/valid"""
    out = []
    for f in F.funcs:
        if not f.get('dtor') or not f.get('blocks') or not f.get('record'): continue
        rec = (F.rec_by_q.get(f['record']) or [None])[0]
        if rec is None: continue
        ptrs = {fl['name'] for fl in rec['fields'] if not fl.get('static') and (fl.get('type', '').endswith('*') or re.search(r'coroutine_handle|\bint\b|size_t|\bunsigned\b', fl.get('type', '')))}
        if not ptrs: continue
        G = Graph(f)
        for t, e in G.ev.items():
            if e.get('k') != 'term' or e.get('cond') is None: continue
            c = e['cond']
            while isinstance(c, dict) and c.get('op') == 'un': c = c.get('e')
            comps = set()
            for pth in expr_paths(e['cond']):
                for cmp_ in pth.split('.'):
                    comps.add(cmp_)
                    if cmp_.endswith('()'):     # a predicate method of the class (valid(), operator bool()): look through it
                        for g in F.by_record.get(f['record'], []):
                            if g['name'] == cmp_[:-2]:
                                for _, _, ev in events(g):
                                    if ev['k'] == 'ret':
                                        for p2 in expr_paths(ev.get('v')): comps.update(p2.split('.'))
            hit = [p for p in ptrs if p in comps]
            if hit:
                # the guarded branch must do something (a call) with the member
                out.append((rec, f, hit[0]))
                break
    return out


def _mk(prop):
    rid = 'R-OWN-' + prop
    @rule(rid, [prop], floor=1, configs=(['d20', 'r20', 'v20'] if prop == 'C10' else None))
    def r(run, F, prop=prop):
        n = 0
        for rec, dtor, m in handle_classes(F):
            p = next(pp for rx, pp in FILE_PROP if re.search(rx, rec['file']))
            if p != prop: continue
            q = rec['qname']; short = q.split('::')[-1]
            # declared move constructors
            mctors = [mm for mm in rec['methods'] if mm['name'] == short and len(mm['ptypes']) == 1 and mm['ptypes'][0].endswith('&&') and short in mm['ptypes'][0]]
            if not mctors: continue
            n += 1
            run.inst('%s:%s %s' % (rec['file'], rec['line'], q), 'move constructor empties the source handle %s' % m, key=(q, m))
            for mm in mctors:
                if mm.get('deleted'): continue
                bodies = [g for g in F.by_record.get(q, []) if g.get('ctor') and len(g.get('params', [])) == 1 and g['params'][0]['type'].endswith('&&') and g.get('blocks')]
                if not bodies:
                    run.violation(q, 'move-defaulted:' + m, '%s:%s' % (rec['file'], mm['line']),
                                  'the move constructor of %s is defaulted/bodyless although its destructor releases through `%s` when it is non-null: the moved-from object keeps the handle, so the resource is released twice (or a guard is dropped early)' % (q.replace('unifex::', ''), m))
                    continue
                for g in bodies:
                    other = g['params'][0]['name']
                    ok = False
                    for b, i, e in events(g):
                        txt = []
                        if e['k'] == 'call' and e['callee'].get('name') in ('exchange', 'swap'):
                            txt = [a.get('p', '') for a in e.get('args', []) if isinstance(a, dict)]
                            if any(t == '%s.%s' % (other, m) for t in txt): ok = True
                        if e['k'] == 'assign' and e['lhs'] == '%s.%s' % (other, m): ok = True
                        if e['k'] == 'call' and e['callee'].get('name') in ('release', 'reset') and e['callee'].get('base') in (other, '%s.%s' % (other, m)): ok = True
                        if e['k'] == 'init':
                            for pth in expr_paths(e.get('v')):
                                if pth.startswith(other) and ('exchange' in pth or 'release' in pth): ok = True
                    if not ok:
                        run.violation(g['qname'], 'move-keeps-handle:' + m, '%s:%s' % (g['file'], g['line']),
                                      'the move constructor of %s copies `%s` without clearing it in the source: both objects then own the handle and both destructors release it' % (q.replace('unifex::', ''), m))
        if n == 0: raise Broken('no movable handle class found for ' + prop)
    r.__doc__ = 'for every class whose destructor releases a resource only when a pointer/handle member is set (canary guard, coroutine holders, scope references, descriptors, any_unique), the move constructor is user-written and clears that member in the source (exchange/assign/release): a defaulted or copying move leaves two owners'
    from .. import core
    core.RULES[rid]['doc'] = r.__doc__
    return r


for _p in ('C19', 'C10', 'C14', 'C18', 'C08'):
    _mk(_p)


# ---------------------------------------------------------------------------------------------- R-OWN-SENTINEL
def _num(x):
    """integer value of a constant expression tree (nullptr / {} = 0), None otherwise"""
    if not isinstance(x, dict): return None
    if x.get('op') == 'path':
        p = x.get('p') or ''
        if p in ('#null', '#false'): return 0
        if p == '#true': return 1
        if re.fullmatch(r'#-?\d+', p): return int(p[1:])
        if p.startswith('<ctor ') : return 0          # value-initialised handle: coroutine_handle<>{}
        return None
    if x.get('op') == 'un' and x.get('o') == '-':
        v = _num(x.get('e')); return None if v is None else -v
    return None


def _eval(c, member, x):
    """truth of predicate tree c when this.<member> == x; None when the form is not understood"""
    if not isinstance(c, dict): return None
    op = c.get('op')
    if op == 'path' or op == 'call':
        p = c.get('p') or ''
        if p in ('this.' + member, member, 'this.%s.operator bool()' % member): return x != 0
        return None
    if op == 'un' and c.get('o') == '!':
        v = _eval(c.get('e'), member, x); return None if v is None else (not v)
    if op == 'bin':
        o = c.get('o')
        if o in ('&&', '||'):
            l, r = _eval(c.get('l'), member, x), _eval(c.get('r'), member, x)
            if l is None or r is None: return None
            return (l and r) if o == '&&' else (l or r)
        L, R = c.get('l') or {}, c.get('r') or {}
        def val(t):
            if t.get('op') == 'path' and t.get('p') in ('this.' + member, member): return x
            return _num(t)
        a, b = val(L), val(R)
        if a is None or b is None: return None
        return {'==': a == b, '!=': a != b, '<': a < b, '<=': a <= b, '>': a > b, '>=': a >= b}.get(o)
    return None


def own_sentinel(run, F, prop):
    """for every single-owner handle class, the validity predicate guarding the release in the destructor (the member itself, valid(), operator bool) separates exactly the "empty" constant the move constructor leaves in the source (-1, nullptr) from every other handle value (0 is a valid descriptor): decided by evaluating the comparison form on the sentinel and on representative non-sentinel values"""
    n = 0
    for rec, dtor, m in handle_classes(F):
        q = rec['qname']
        if next(pp for rx, pp in FILE_PROP if re.search(rx, rec['file'])) != prop: continue
        # sentinel: constant exchanged/assigned into other.m by the move constructor
        S = None
        for g in F.by_record.get(q, []):
            if not (g.get('ctor') and len(g.get('params', [])) == 1 and g['params'][0]['type'].endswith('&&') and g.get('blocks')): continue
            other = g['params'][0]['name']
            for b, i, e in events(g):
                if e['k'] == 'call' and e['callee'].get('name') == 'exchange' and len(e.get('args', [])) == 2 and isinstance(e['args'][0], dict) \
                        and e['args'][0].get('p') == '%s.%s' % (other, m):
                    S = _num(e['args'][1])
                if e['k'] == 'assign' and e['lhs'] == '%s.%s' % (other, m): S = _num(e.get('rhs'))
        if S is None: continue
        # predicate: destructor condition mentioning the member, looked through predicate methods
        preds = []
        G = Graph(dtor)
        for t, e in G.ev.items():
            if e.get('k') != 'term' or e.get('cond') is None: continue
            c = e['cond']
            for pth in expr_paths(c):
                if pth in ('this.' + m, 'this.%s.operator bool()' % m): preds.append((c, dtor, G.line(t)))
                mm = re.fullmatch(r'this\.(\w[\w ]*)\(\)', pth)
                if mm:
                    for g in F.by_record.get(q, []):
                        if g['name'] == mm.group(1):
                            for _, _, ev in events(g):
                                if ev['k'] == 'ret' and ev.get('v') is not None and any(last_field(pp) == m or pp.endswith(m + '.operator bool()') for pp in expr_paths(ev['v'])):
                                    preds.append((ev['v'], g, ev.get('line') or g['line']))
        for c, g, line in preds:
            vs = _eval(c, m, S)
            others = [_eval(c, m, x) for x in (0, 1, 2, 7, 1 << 20) if x != S]
            if vs is None or any(o is None for o in others):
                continue
            n += 1
            run.inst('%s:%s %s' % (g['file'], line, q), 'validity predicate of %s: false for the empty value %s, true otherwise' % (m, S), key=(q, m, g['name']))
            xs = [x for x in (0, 1, 2, 7, 1 << 20) if x != S]
            same = [x for x, o in zip(xs, others) if o == vs]
            if same:
                run.violation(g['qname'], 'sentinel-not-separated:' + m, '%s:%s' % (g['file'], line),
                              'the validity predicate of %s gives the same answer for the handle value(s) %s as for the empty value %s that the move constructor leaves behind: such a handle (e.g. descriptor 0) is treated as empty and never released, or the empty object is released' % (q.replace('unifex::', ''), same, S))
    if n == 0: raise Broken('no handle class with a decidable validity predicate found for ' + prop)


def _mks(prop):
    rid = 'R-OWN-SENTINEL-' + prop
    @rule(rid, [prop], floor=1, configs=(['d20', 'r20', 'v20'] if prop == 'C10' else None))
    def r(run, F, prop=prop): own_sentinel(run, F, prop)
    r.__doc__ = own_sentinel.__doc__
    from .. import core
    core.RULES[rid]['doc'] = r.__doc__


for _p in ('C19', 'C10', 'C14', 'C18', 'C08'):
    _mks(_p)


# ---------------------------------------------------------------------------------------------- R-ASSIGN-RELEASE
@rule('R-ASSIGN-RELEASE', ['C14', 'C18', 'C10', 'C08', 'C19', 'C02'], floor=0)
def assign_releases_old(run, F):
    """an assignment operator of a single-owner handle class (destructor releases iff the handle is set) that takes its right-hand side by reference and overwrites the handle member first releases the resource the object currently owns - by calling what the destructor calls (close, munmap, destroy, ...) on every path before the overwrite - or swaps with the right-hand side; by-value copy-and-swap operators are safe by construction: otherwise assigning onto a live object leaks its descriptor / mapping / coroutine frame (released zero times)"""
    n = 0
    for rec, dtor, m in handle_classes(F):
        q = rec['qname']; short = re.sub(r'<.*', '', q.split('::')[-1])
        rel = {(e['callee'].get('name') or '').split('::')[-1] for _, _, e in events(dtor) if e['k'] == 'call'} - {'', 'valid', 'operator bool', 'get', 'exchange', 'move'}
        if any(e['k'] == 'delete' for _, _, e in events(dtor)): rel.add('delete')
        for g in F.by_record.get(q, []):
            if g['name'] != 'operator=' or not g.get('blocks') or len(g.get('params', [])) != 1: continue
            t = g['params'][0]['type']
            if not re.search(r'\b%s\b' % re.escape(short), t): continue
            n += 1
            if not t.rstrip().endswith('&'):
                run.inst(site(g), 'by-value right-hand side: the old resource dies with the parameter', nontrivial=False, key=(q, t)); continue
            G = Graph(g)
            other = g['params'][0]['name']
            run.inst(site(g), 'old %s released (%s) or swapped before it is overwritten' % (m, sorted(rel)), key=(q, t))
            releases = {x for x, e in G.ev.items() if (e.get('k') == 'call' and ((e['callee'].get('name') or '').split('::')[-1] in rel or (e['callee'].get('name') or '').split('::')[-1] == 'swap')) or (e.get('k') == 'delete' and 'delete' in rel)}
            for x, e in G.ev.items():
                w = False
                if e.get('k') == 'assign' and last_field(e.get('lhs') or '') == m and (e['lhs'].split('.')[0] in ('this', m)): w = True
                if e.get('k') == 'call' and e['callee'].get('name') == 'exchange' and e.get('args') and isinstance(e['args'][0], dict) and (e['args'][0].get('p') or '') in ('this.' + m, m): w = True
                if not w: continue
                if not G.dominated_by_any(x, releases):
                    run.violation(g['qname'], 'overwrite-without-release:' + m, '%s:%s' % (g['file'], G.line(x)),
                                  '%s overwrites `%s` without first releasing the resource the object currently owns (the destructor releases it through %s): assigning onto a live %s leaks its resource - it is released zero times' % (
                                      g['qname'].replace('unifex::', ''), m, sorted(rel) or 'its body', q.replace('unifex::', '')))
                    break
