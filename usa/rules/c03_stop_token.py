"""C03 — stop-token protocol (inplace_stop_source / inplace_stop_callback / adapters)."""
import re

from ..core import rule, site, Broken
from ..facts import Graph, accesses, last_field, memorder, expr_paths, expr_eids
from .. import lockflow

SRC = 'unifex::inplace_stop_source'
CB = 'unifex::inplace_stop_callback_base'
GUARDED = {'callbacks_', 'notifyingThreadId_', 'next_', 'prevPtr_'}   # list linkage + notifier id: only under the spin lock
LOCKNAME = 'stop_source.state_'


class StopSrcSpec(lockflow.Spec):
    def acquire(self, e):
        ce = e['callee']
        if ce.get('qname') == SRC + '::lock': return LOCKNAME
    def try_acquire(self, e):
        if e['callee'].get('qname') == SRC + '::try_lock_unless_stop_requested': return LOCKNAME
    def release(self, e):
        ce = e['callee']
        if ce.get('qname') == SRC + '::unlock': return LOCKNAME
        if ce.get('name') == 'store' and last_field(ce.get('base', '')) == 'state_': return LOCKNAME


def _fn(F, q, need=True):
    fs = [f for f in F.by_q.get(q, []) if f.get('blocks')]
    if not fs and q.startswith(CB + '::'):   # debug builds name the base class inplace_stop_callback_base_d
        fs = [f for f in F.by_q.get(q.replace(CB, CB + '_d'), []) if f.get('blocks')]
    if not fs:
        if need: raise Broken('anchor function %s not found' % q)
        return None
    return fs[0]


@rule('R-LOCK-STOPSRC', ['C03'], floor=12)
def lock_stopsrc(run, F):
    """inplace_stop_source: callback list linkage and notifyingThreadId_ are touched only with the spin lock held; the lock is released on every exit, never re-acquired while held, and callbacks execute with it released"""
    spec = StopSrcSpec()
    for name in ('request_stop', 'try_add_callback', 'remove_callback'):
        f = _fn(F, SRC + '::' + name)
        G = Graph(f)
        IN = lockflow.analyse(G, spec)
        for n, e in G.ev.items():
            if e.get('macro', '').startswith('UNIFEX_ASSERT'): continue
            for p, rw in accesses(e):
                if last_field(p) in GUARDED or any(c in GUARDED for c in p.split('.')[:-1] if c in ('callbacks_',)):
                    if not IN.get(n): continue   # unreachable
                    run.inst(site(f, G.line(n)), '%s %s under lock' % (rw, p), key=(f['qname'], p, rw))
                    if not lockflow.held_always(IN, n, LOCKNAME):
                        run.violation(f['qname'], 'unlocked:' + last_field(p), '%s:%s' % (f['file'], G.line(n)),
                                      'access to %s (%s) on a path where the stop-source spin lock is not held' % (p, rw))
            if e.get('k') == 'call':
                q = e['callee'].get('qname', ''); nm = e['callee'].get('name')
                if nm == 'execute' and IN.get(n):
                    run.inst(site(f, G.line(n)), 'callback executes with lock released', key=(f['qname'], 'execute'))
                    if not lockflow.held_never(IN, n, LOCKNAME):
                        run.violation(f['qname'], 'execute-under-lock', '%s:%s' % (f['file'], G.line(n)),
                                      'stop callback is executed while the stop-source spin lock is held (re-entrant deregistration would deadlock)')
                if (q == SRC + '::lock' or q == SRC + '::try_lock_unless_stop_requested') and IN.get(n):
                    run.inst(site(f, G.line(n)), 'no re-acquire while held', key=(f['qname'], 'acq', G.line(n)))
                    if not lockflow.held_never(IN, n, LOCKNAME):
                        run.violation(f['qname'], 'double-acquire', '%s:%s' % (f['file'], G.line(n)),
                                      'spin lock acquired on a path where it is already held')
        if G.exit is not None and IN.get(G.exit):
            run.inst(site(f), 'lock released at exit', key=(f['qname'], 'exit'))
            if not lockflow.held_never(IN, G.exit, LOCKNAME):
                run.violation(f['qname'], 'held-at-exit', '%s:%s' % (f['file'], f['endline']),
                              'function can return with the stop-source spin lock still held')
        # every `ret` node too (returns inside the body)
        for n, e in G.ev.items():
            if e.get('k') == 'ret' and IN.get(n):
                if not lockflow.held_never(IN, n, LOCKNAME):
                    run.violation(f['qname'], 'held-at-exit', '%s:%s' % (f['file'], G.line(n)),
                                  'function can return with the stop-source spin lock still held')


def _pol_of_path(cond, pred, pol=True):
    return lockflow._truth_of_path(cond, pred, pol)


@rule('R-STOPSRC-REQSTOP', ['C03'], floor=5)
def reqstop_protocol(run, F):
    """request_stop(): first-requester gate; each callback is unlinked (prevPtr_=null) under the lock and told where to report re-entrant removal before it executes; callbackCompleted_ is published (release) after execute unless removed re-entrantly; the stop flag is never cleared"""
    f = _fn(F, SRC + '::request_stop')
    G = Graph(f)
    loc = lambda n: '%s:%s' % (f['file'], G.line(n))
    ex = list(G.call_nodes(name='execute'))
    if not ex: raise Broken('no execute() call in request_stop')
    # gate: first node is the try-lock with setStopRequested=true and the not-acquired branch returns true
    gates = [n for n in G.call_nodes(qname=SRC + '::try_lock_unless_stop_requested')]
    if not gates: raise Broken('request_stop has no try_lock_unless_stop_requested gate')
    g = gates[0]; ge = G.ev[g]
    run.inst(site(f, G.line(g)), 'first-requester gate sets the stop flag', key='gate')
    if not (ge.get('args') and ge['args'][0].get('p') == '#true'):
        run.violation(f['qname'], 'gate-arg', loc(g), 'request_stop does not ask the gate to set the stop-requested flag')
    for n in ex:
        if not G.dominated_by_any(n, {g}):
            run.violation(f['qname'], 'gate-dom', loc(n), 'a callback can be executed without having won the first-requester gate')
    # the losing branch returns true ("stop was already requested"), the winning path returns false
    for t, tt, tf in G.branch_edges(lambda e: ge['eid'] in expr_eids(e['cond'])):
        pol = lockflow._truth_of_call(G.ev[t]['cond'], ge['eid'])
        if pol is None: raise Broken('gate result used in an unrecognised condition')
        lose = tf if pol else tt
        rets = [m for m in G.reach(lose) if G.ev[m].get('k') == 'ret']
        first = [m for m in rets if G.dominated_by_any(m, {lose})][:1]
        run.inst(site(f, G.line(t)), 'loser returns true', key='gate-lose')
        for m in first:
            v = G.ev[m].get('v') or {}
            if v.get('p') != '#true':
                run.violation(f['qname'], 'loser-return', loc(m), 'a request_stop() that lost the gate does not report that stop had already been requested')
    win_rets = [n for n, e in G.ev.items() if e.get('k') == 'ret' and (e.get('v') or {}).get('p') == '#false']
    run.inst(site(f), 'exactly the winner returns false', key='gate-win')
    for m in win_rets:
        if not G.dominated_by_any(m, {g}):
            run.violation(f['qname'], 'winner-return', loc(m), 'request_stop() can report "first" without passing the gate')
    if not win_rets:
        run.violation(f['qname'], 'winner-return', loc(g), 'no path on which request_stop() reports that it was the first requester')
    for x in ex:
        # unlink before execute
        unl = [n for n, e in G.ev.items() if e.get('k') == 'assign' and last_field(e['lhs']) == 'prevPtr_' and (e.get('rhs') or {}).get('p') == '#null']
        run.inst(site(f, G.line(x)), 'prevPtr_ = nullptr dominates execute()', key='unlink')
        if not unl or not G.dominated_by_any(x, set(unl)):
            run.violation(f['qname'], 'unlink-before-execute', loc(x), 'callback is executed without first being marked dequeued (prevPtr_ = nullptr): a concurrent deregistration would unlink it from the list and return while it runs')
        rdc = [n for n, e in G.ev.items() if e.get('k') == 'assign' and last_field(e['lhs']) == 'removedDuringCallback_' and expr_paths(e.get('rhs')) and expr_paths(e.get('rhs')) != ['#null']]
        run.inst(site(f, G.line(x)), 'removedDuringCallback_ armed before execute()', key='rdc')
        if not rdc or not G.dominated_by_any(x, set(rdc)):
            run.violation(f['qname'], 'rdc-before-execute', loc(x), 'callback executes without removedDuringCallback_ pointing at the notifier\'s flag: deregistering from inside the callback is not detected')
        # an unlock (store to state_) between unlink and execute is checked by R-LOCK-STOPSRC
        # after execute: completed flag published unless removed during callback
        stores = [n for n in G.call_nodes(name='store') if last_field(G.ev[n]['callee'].get('base', '')) == 'callbackCompleted_']
        run.inst(site(f, G.line(x)), 'callbackCompleted_.store(true, release) follows execute()', key='completed')
        good = [n for n in stores if (G.ev[n]['args'] and G.ev[n]['args'][0].get('p') == '#true' and set(memorder(G.ev[n])) & {'release', 'seq_cst', 'acq_rel'})]
        blocked_edges = set()
        # the notifier's local flag is whatever local the arming assignment takes the address of (its name is free)
        flagvars = set()
        for n2 in rdc:
            for pth in expr_paths(G.ev[n2].get('rhs')):
                if pth and not pth.startswith('#') and '.' not in pth: flagvars.add(pth)
        # ... possibly through a local pointer (`bool* p = &flag; cb->removedDuringCallback_ = p;`)
        for n2, e2 in G.ev.items():
            if e2.get('k') == 'decl':
                for v in e2['vars']:
                    if v['var'] in flagvars:
                        for pth in expr_paths(v.get('init')):
                            if pth and not pth.startswith('#') and '.' not in pth: flagvars.add(pth)
        if not flagvars: flagvars = {'removedDuringCallback'}
        for t, tt, tf in G.branch_edges(lambda e: bool(flagvars & set(expr_paths(e['cond'])))):
            pol = _pol_of_path(G.ev[t]['cond'], lambda p: p in flagvars)
            if pol is None: continue
            removed_edge = tt if pol else tf
            if removed_edge is not None: blocked_edges.add((t, removed_edge))
        relock = set(G.call_nodes(qname=SRC + '::lock'))
        r = G.reach([m for m, _ in G.succ[x]], blocked=set(good), blocked_edges=blocked_edges)
        bad = [m for m in r if m in relock or m == G.exit or G.ev[m].get('k') == 'ret']
        if bad:
            run.violation(f['qname'], 'completed-after-execute', loc(x), 'after a callback ran, the notifier can go on without publishing callbackCompleted_ (release): a concurrent deregistration would spin forever or return early')
        for s in stores:
            if s in good: continue
            run.violation(f['qname'], 'completed-order', loc(s), 'callbackCompleted_ is stored without release ordering or with the wrong value')
        # the store must come after execute (not before)
        for s in good:
            if not G.dominated_by_any(s, {x}):
                run.violation(f['qname'], 'completed-before-execute', loc(s), 'callbackCompleted_ can be published before the callback has run')
    # stores to state_ keep the stop flag
    for n in G.call_nodes(name='store'):
        e = G.ev[n]
        if last_field(e['callee'].get('base', '')) != 'state_': continue
        run.inst(site(f, G.line(n)), 'unlock keeps stop_requested_flag', key=('flag', G.line(n)))
        a0 = e['args'][0] if e.get('args') else {}
        if 'stop_requested_flag' not in ' '.join(expr_paths(a0)):
            run.violation(f['qname'], 'flag-cleared', loc(n), 'request_stop() stores a state without stop_requested_flag: stop_requested() could revert to false')
        if not set(memorder(e)) & {'release', 'seq_cst', 'acq_rel'}:
            run.violation(f['qname'], 'unlock-order', loc(n), 'unlocking store to state_ is weaker than release')


@rule('R-STOPSRC-REMOVE', ['C03'], floor=3)
def remove_protocol(run, F):
    """remove_callback(): if the callback was already dequeued, return only after observing callbackCompleted_ (acquire) — or when called on the notifying thread, after flagging removedDuringCallback; otherwise unlink under the lock"""
    f = _fn(F, SRC + '::remove_callback')
    G = Graph(f)
    loc = lambda n: '%s:%s' % (f['file'], G.line(n))
    # the discriminating branch on prevPtr_
    brs = G.branch_edges(lambda e: any(last_field(p) == 'prevPtr_' for p in expr_paths(e['cond'])))
    if not brs: raise Broken('remove_callback does not branch on prevPtr_')
    t, tt, tf = brs[0]
    c = G.ev[t]['cond']
    # which edge means "prevPtr_ == nullptr" (already dequeued)?
    deq = None
    if c.get('op') == 'bin' and c['o'] in ('!=', '==') and '#null' in (c['l'].get('p'), c['r'].get('p')):
        deq = tf if c['o'] == '!=' else tt
    elif c.get('op') == 'path': deq = tf
    elif c.get('op') == 'un' and c['o'] == '!': deq = tt
    if deq is None: raise Broken('unrecognised form of the prevPtr_ test in remove_callback')
    queued = tt if deq is tf else tf
    run.inst(site(f, G.line(t)), 'dequeued branch waits for completion', key='wait')
    # loads of callbackCompleted_
    loads = [n for n in G.call_nodes(name='load') if last_field(G.ev[n]['callee'].get('base', '')) == 'callbackCompleted_']
    ok_edges = set()
    for l in loads:
        e = G.ev[l]
        acq = set(memorder(e)) & {'acquire', 'seq_cst', 'acq_rel'} or not memorder(e) and not e.get('args')
        for t2, a, b in G.branch_edges(lambda x: e['eid'] in expr_eids(x['cond'])):
            pol = lockflow._truth_of_call(G.ev[t2]['cond'], e['eid'])
            if pol is None: continue
            done_edge = a if pol else b
            if not acq:
                run.violation(f['qname'], 'completed-load-order', loc(l), 'callbackCompleted_ is read weaker than acquire: the deregistering thread may not see the callback\'s effects')
            if done_edge is not None: ok_edges.add((t2, done_edge))
    # thread-id equality => removedDuringCallback path
    for t2, a, b in G.branch_edges(lambda x: any('notifyingThreadId' in p for p in expr_paths(x['cond'])) and any('get_id' in p for p in expr_paths(x['cond']))):
        c2 = G.ev[t2]['cond']
        if c2.get('op') == 'bin' and c2['o'] == '==': same = a
        elif c2.get('op') == 'bin' and c2['o'] == '!=': same = b
        else: raise Broken('unrecognised thread-id comparison in remove_callback')
        if same is not None:
            ok_edges.add((t2, same))
            run.inst(site(f, G.line(t2)), 'same-thread removal flags removedDuringCallback', key='same-thread')
            # on the same-thread path the flag must be written when non-null
            ws = [n for n, e in G.ev.items() if e.get('k') == 'assign' and last_field(e['lhs']) == 'removedDuringCallback_' and (e.get('rhs') or {}).get('p') == '#true']
            r = G.reach(same)
            if not any(w in r for w in ws):
                run.violation(f['qname'], 'same-thread-flag', loc(t2), 'deregistration from inside the callback does not set *removedDuringCallback_: the notifier would touch the destroyed callback afterwards')
    r = G.reach(deq, blocked_edges=ok_edges)
    bad = [m for m in r if m == G.exit or G.ev[m].get('k') == 'ret']
    if bad:
        run.violation(f['qname'], 'return-while-running', loc(t), 'remove_callback can return for an already-dequeued callback without having observed callbackCompleted_ and without being the notifying thread: the callback may still be running on another thread')
    # queued branch: unlink (*prevPtr_ = next_) must happen
    run.inst(site(f, G.line(t)), 'queued branch unlinks', key='unlink')
    if queued is not None:
        r = G.reach(queued)
        if not any(G.ev[m].get('k') == 'assign' and last_field(G.ev[m]['lhs']) == 'prevPtr_' and len(G.ev[m]['lhs'].split('.')) == 2 for m in r):
            run.violation(f['qname'], 'no-unlink', loc(t), 'a still-queued callback is not unlinked from the list on deregistration')


@rule('R-STOPSRC-REGISTER', ['C03'], floor=4)
def register_protocol(run, F):
    """registration after stop executes inline exactly once with source_ cleared first; the callback destructor deregisters iff still associated; try_add_callback links under a lock taken only while stop is not requested"""
    f = _fn(F, CB + '::register_callback')
    G = Graph(f)
    loc = lambda n: '%s:%s' % (f['file'], G.line(n))
    adds = list(G.call_nodes(qname=SRC + '::try_add_callback'))
    exs = list(G.call_nodes(name='execute'))
    if not adds or not exs: raise Broken('register_callback lacks try_add_callback/execute')
    a = adds[0]; ae = G.ev[a]
    run.inst(site(f, G.line(a)), 'inline execute only when registration failed', key='inline')
    for t, tt, tf in G.branch_edges(lambda e: ae['eid'] in expr_eids(e['cond'])):
        pol = lockflow._truth_of_call(G.ev[t]['cond'], ae['eid'])
        if pol is None: raise Broken('unrecognised use of try_add_callback result')
        ok_edge, fail_edge = (tt, tf) if pol else (tf, tt)
        for x in exs:
            if ok_edge is not None and x in G.reach(ok_edge, blocked_edges={(t, fail_edge)}) and not G.dominated_by_any(x, {fail_edge}):
                run.violation(f['qname'], 'execute-when-registered', loc(x), 'callback is executed inline although it was registered: it would run twice when stop is requested')
        r = G.reach(fail_edge) if fail_edge is not None else set()
        if not any(x in r for x in exs):
            run.violation(f['qname'], 'no-inline-execute', loc(t), 'registration on an already-stopped source does not execute the callback inline')
        clears = [n for n, e in G.ev.items() if e.get('k') == 'assign' and last_field(e['lhs']) == 'source_' and (e.get('rhs') or {}).get('p') == '#null']
        run.inst(site(f, G.line(t)), 'source_ cleared before inline execute', key='clear')
        for x in exs:
            if not clears or not G.dominated_by_any(x, set(clears)):
                run.violation(f['qname'], 'source-not-cleared', loc(x), 'inline execution happens with source_ still set: the destructor would try to deregister a callback that was never registered')
    if len(exs) != 1:
        run.violation(f['qname'], 'execute-count', loc(exs[0]), 'register_callback contains %d execute() calls; exactly one inline execution is expected' % len(exs))
    # destructor of inplace_stop_callback: remove_callback under source_ != nullptr
    ds = [g for g in F.funcs if g.get('dtor') and g.get('record', '').startswith('unifex::inplace_stop_callback') and not g['record'].endswith('_base')]
    if not ds: raise Broken('inplace_stop_callback destructor not found')
    for d in ds:
        Gd = Graph(d)
        rm = list(Gd.call_nodes(name='remove_callback'))
        run.inst(site(d), 'destructor deregisters', key='dtor')
        if not rm:
            run.violation(d['qname'], 'dtor-no-remove', '%s:%s' % (d['file'], d['line']), 'inplace_stop_callback destructor does not deregister from the source')
            continue
        # every path with source_ != null reaches remove_callback
        brs = Gd.branch_edges(lambda e: any(last_field(p) == 'source_' for p in expr_paths(e['cond'])))
        if brs:
            t, tt, tf = brs[0]; c = Gd.ev[t]['cond']
            nonnull = tt if (c.get('op') == 'path' or (c.get('op') == 'bin' and c['o'] == '!=')) else tf
            if nonnull is None or not any(m in rm for m in Gd.reach(nonnull)):
                run.violation(d['qname'], 'dtor-no-remove', '%s:%s' % (d['file'], Gd.line(t)), 'destructor skips remove_callback although the callback is still associated with a source')
    # try_add_callback: gated by try_lock_unless_stop_requested(false), returns false on the losing edge
    f2 = _fn(F, SRC + '::try_add_callback')
    G2 = Graph(f2)
    gs = list(G2.call_nodes(qname=SRC + '::try_lock_unless_stop_requested'))
    if not gs: raise Broken('try_add_callback has no gate')
    g = gs[0]; ge = G2.ev[g]
    run.inst(site(f2, G2.line(g)), 'registration gate does not set the stop flag and fails after stop', key='addgate')
    if not (ge.get('args') and ge['args'][0].get('p') == '#false'):
        run.violation(f2['qname'], 'gate-arg', '%s:%s' % (f2['file'], G2.line(g)), 'registering a callback sets the stop-requested flag')
    for t, tt, tf in G2.branch_edges(lambda e: ge['eid'] in expr_eids(e['cond'])):
        pol = lockflow._truth_of_call(G2.ev[t]['cond'], ge['eid'])
        lose = tf if pol else tt
        rets = [m for m in G2.reach(lose) if G2.ev[m].get('k') == 'ret' and G2.dominated_by_any(m, {lose})]
        for m in rets[:1]:
            if (G2.ev[m].get('v') or {}).get('p') != '#false':
                run.violation(f2['qname'], 'add-after-stop', '%s:%s' % (f2['file'], G2.line(m)), 'try_add_callback reports success although stop was already requested (callback would never run)')
    links = [n for n, e in G2.ev.items() if e.get('k') == 'assign' and e['lhs'] == 'this.callbacks_']
    if not links:
        run.violation(f2['qname'], 'no-link', '%s:%s' % (f2['file'], f2['line']), 'try_add_callback never links the callback into the list')


@rule('R-MO-STOPSRC', ['C03'], floor=6)
def mo_stopsrc(run, F):
    """memory orders of the stop-source lock word: acquiring CAS >= acquire on success, gate CAS acq_rel, unlocking store >= release, stop_requested() load >= acquire"""
    want = [
        (SRC + '::lock', 'compare_exchange_weak', 0, {'acquire', 'acq_rel', 'seq_cst'}, 'lock acquisition must be an acquire'),
        (SRC + '::try_lock_unless_stop_requested', 'compare_exchange_weak', 0, {'acq_rel', 'seq_cst'}, 'the gate both acquires the lock and publishes the stop flag'),
        (SRC + '::unlock', 'store', 0, {'release', 'seq_cst'}, 'unlock must release the list writes'),
        (SRC + '::stop_requested', 'load', 0, {'acquire', 'seq_cst'}, 'stop_requested() must observe what the requester published'),
    ]
    for q, op, idx, ok, why in want:
        f = _fn(F, q)
        G = Graph(f)
        ns = [n for n in G.call_nodes(name=op) if last_field(G.ev[n]['callee'].get('base', '')) == 'state_']
        if not ns: raise Broken('%s: no %s on state_' % (q, op))
        for n in ns:
            mo = memorder(G.ev[n])
            run.inst(site(f, G.line(n)), '%s %s %s' % (op, mo, why), key=(q, op))
            first = mo[idx] if len(mo) > idx else 'seq_cst'
            if first not in ok:
                run.violation(q, 'mo:' + op, '%s:%s' % (f['file'], G.line(n)), '%s on state_ uses memory_order_%s; %s' % (op, first, why))
    # the CAS loops must retry on failure (loop back) and the gate must bail out when the flag is set
    f = _fn(F, SRC + '::try_lock_unless_stop_requested')
    G = Graph(f)
    run.inst(site(f), 'gate fails once stop_requested_flag is set', key='gate-flag')
    brs = G.branch_edges(lambda e: any('stop_requested_flag' in p for p in expr_paths(e['cond'])))
    cas = list(G.call_nodes(name='compare_exchange_weak')) + list(G.call_nodes(name='compare_exchange_strong'))
    if not brs:
        run.violation(f['qname'], 'gate-no-flag-test', '%s:%s' % (f['file'], f['line']), 'the lock gate never tests stop_requested_flag: a second request_stop() or a late registration would be admitted')
    else:
        t, tt, tf = brs[0]
        c = G.ev[t]['cond']
        setedge = tt if (c.get('op') == 'bin' and c['o'] == '!=') else (tf if (c.get('op') == 'bin' and c['o'] == '==') else None)
        if setedge is None: raise Broken('unrecognised flag test in the gate')
        rets = [m for m in G.reach(setedge) if G.ev[m].get('k') == 'ret' and G.dominated_by_any(m, {setedge})]
        if not rets or (G.ev[rets[0]].get('v') or {}).get('p') != '#false':
            run.violation(f['qname'], 'gate-flag-return', '%s:%s' % (f['file'], G.line(t)), 'the gate does not fail when stop was already requested')
        for cnode in cas:
            if not G.dominated_by_any(cnode, {t}):
                run.violation(f['qname'], 'gate-cas-unguarded', '%s:%s' % (f['file'], G.line(cnode)), 'the locking CAS can be attempted without re-testing the stop flag')
        # the CAS must be attempted only from the "state == 0" edge: expected value 0 => flag clear and unlocked
        z = G.branch_edges(lambda e: e['cond'].get('op') == 'bin' and e['cond']['o'] == '==' and '#0' in (e['cond']['l'].get('p'), e['cond']['r'].get('p')))
        run.inst(site(f), 'CAS only from the unlocked, not-stopped state', key='gate-zero')
        if not z:
            run.violation(f['qname'], 'gate-zero', '%s:%s' % (f['file'], f['line']), 'the gate does not wait for the unlocked state before its CAS')
