"""R-WITNESS-* — compile-only type-level witnesses (never linked, never run).

Each witness translation unit under /verif/witness contains static_asserts whose messages start with
a `W-...` tag.  The rule compiles the TU with clang++ -fsyntax-only against the *current* /repo tree
(per configuration) and reports every failed static_assert as a violation; any other compile error
inside the witness means the witness no longer matches the library's interface -> analysis-broken.
An error located in a /repo header (e.g. a forwarding overload removed -> 'no matching function') is
reported as a violation, since the witness only uses the documented public surface.
"""
import os, re, subprocess

from ..core import rule, Broken, VERIF
from .. import extract

WITNESSES = [
    # (rule id, properties, file, configs allowed, doc)
    ('R-WITNESS-POLICY', ['C17'], 'policy.cpp', None,
     'type-level witness: the execution policy bulk_transform reports upstream equals the meet (unsequenced iff both, parallel iff both) of its function\'s policy and the policy its receiver permits, for all 16 combinations, stacked transforms and bulk_join'),
    ('R-WITNESS-QUERIES', ['C12', 'C04', 'C11'], 'queries.cpp', None,
     'type-level witness: for 29 adaptor/child positions (then, upon_*, let_*, sequence, when_all, finally, stop_when, materialize, into_variant, repeat/retry, unstoppable, with_query_value, on; depth <= 2; also through the debug-only _inject wrapper) a probe child sees the consumer\'s answers to a user-defined query, get_scheduler, get_allocator and get_stop_token, except for the single query the adaptor is documented to replace'),
    ('R-WITNESS-STOPTRAIT', ['C03', 'C04', 'C12'], 'stop_traits.cpp', None,
     'type-level witness: is_stop_never_possible_v is true exactly for tokens whose constexpr stop_possible() returns false (unstoppable_token) and false for inplace_stop_token and for tokens whose constexpr stop_possible() returns true; the inplace_stop_token_adapter keeps its forwarding state for every stoppable token'),
    ('R-WITNESS-NOEXCEPT', ['C09', 'C08', 'C02', 'C20', 'C17', 'C05'], 'noexcept_honesty.cpp', None,
     'type-level witness: spawn_detached() is not noexcept when it has to allocate the operation state (bad_alloc must propagate out of spawn instead of terminating); connect() of an adaptor is not noexcept when moving the receiver into the operation state can throw - with the same answer in every build configuration (debug routes connect through the async-stack wrapper); bulk_transform\'s connect is not noexcept when its source\'s connect can throw; the receiver CPOs set_value/set_next and is_nothrow_receiver_of_v/is_nothrow_next_receiver_v are false for member or tag_invoke customisations that can throw (bulk_schedule, then, find_if decide from them whether to catch)'),
    ('R-WITNESS-HOP', ['C10', 'C11'], 'affinity_hop.cpp', ['d20', 'r20', 'v20'],
     'type-level witness (C++20): the hop back to the scheduler that with_scheduler_affinity() appends to a non-affine sender (every co_await in a task<>) is started with unstoppable_token, while the awaited sender still sees the consumer\'s stop token; affine senders are returned unchanged'),
    ('R-WITNESS-TRAITS', ['C11', 'C05'], 'traits.cpp', None,
     'type-level witness: computed sender traits are sound - let_value (a predecessor with two value overloads whose factory picks differently typed successors), stop_when and sequence do not declare is_always_scheduler_affine when a sender that can deliver their completion is not affine, declare sends_done when a successor can send done, and are not blocking always_inline when a stage is not'),
    ('R-WITNESS-NOEXCEPT-CORO', ['C10', 'C05'], 'noexcept_coro.cpp', ['d20', 'r20', 'v20'],
     'type-level witness (C++20): the receiver storing a co_awaited value is noexcept exactly when constructing the value from the arguments actually passed cannot throw'),
]


def compile_witness(path, cfg, repo, compiler='clang++'):
    flags = list(extract.CONFIGS[cfg])
    if compiler == 'clang++':
        cmd = ['clang++', '-fsyntax-only', '-ferror-limit=0', '-Wno-everything'] + flags + ['-I' + os.path.join(repo, 'include'), path]
    else:
        # the repository's own compiler (g++ 12): a second, independent front end (thorough tier)
        if any('c++20' in f for f in flags): flags.append('-fcoroutines')
        cmd = ['g++', '-fsyntax-only', '-fmax-errors=0', '-w'] + flags + ['-I' + os.path.join(repo, 'include'), path]
    p = subprocess.run(cmd, stdout=subprocess.PIPE, stderr=subprocess.STDOUT, text=True)
    return p.returncode, p.stdout


def _mk(rid, props, fname, cfgs, doc, flags_cfg=None):
    path = os.path.join(VERIF, 'witness', fname)
    @rule(rid, props, floor=1, configs=cfgs)
    def r(run, F, path=path):
        if not os.path.exists(path): raise Broken('witness %s missing' % path)
        src = open(path).read()
        n_asserts = len(re.findall(r'\bstatic_assert\s*\(', src)) + sum(len(re.findall(r'\b%s\s*\(' % m, src)) for m in ())
        repo = extract.REPO
        rc, out = compile_witness(path, flags_cfg or F.config, repo)
        if run.tier == 'thorough':
            rc2, out2 = compile_witness(path, flags_cfg or F.config, repo, compiler='g++')
            out = out + '\n' + out2
        failed = []
        others = []
        lines = out.splitlines()
        for li, line in enumerate(lines):
            m = re.search(r'^(.*?):(\d+):\d+: error: (.*)$', line)
            if not m: continue
            file, ln, msg = m.group(1), m.group(2), m.group(3)
            # the instantiation notes that follow name the adaptor position (vp::in_<adaptor>)
            where = ''
            for l2 in lines[li + 1: li + 40]:
                if ' error: ' in l2: break
                w = re.search(r'vp::in_(\w+)', l2)
                if w: where = w.group(1); break
            sm = re.search(r"static(?:_assert| assertion) failed.*?[\"']?(W-[^\"']*)", msg)
            if sm: failed.append((file, ln, sm.group(1) + ((' [child position: %s]' % where) if where else '')))
            else: others.append((file, ln, msg + ((' [child position: %s]' % where) if where else '')))
        # expanded macro CHECK(...) rows: count instantiations by counting W- messages present after preprocessing is
        # overkill; report the number of static_assert statements and macro rows textually
        rows = len(re.findall(r'^\s*(CHECK2?|ROW|EXPECT_\w+|check)\s*\(', src, re.M))
        for i in range(max(1, n_asserts + rows)):
            run.inst('%s witness #%d' % (fname, i + 1), 'static_assert holds', key=(fname, i))
        for file, ln, msg in failed:
            run.violation(fname, msg[:120], '%s:%s' % (os.path.relpath(file, VERIF) if file.startswith(VERIF) else file, ln), 'type-level witness failed: ' + msg)
        for file, ln, msg in others:
            if file.startswith(os.path.join(VERIF, 'witness')):
                # follow-on errors of a failed assertion are ignored; a stand-alone error breaks the witness
                if not failed: run.broke('witness %s does not compile any more: %s:%s %s' % (fname, file, ln, msg[:160]))
            else:
                run.violation(fname, 'compile-error:' + msg[:60], '%s:%s' % (file.replace(repo + '/', ''), ln), 'the witness, which uses only the documented public interface, no longer compiles against the library: ' + msg[:200])
    r.__doc__ = doc
    from .. import core
    core.RULES[rid]['doc'] = doc
    return r


for _w in WITNESSES:
    _mk(*_w)
# the continuation-visitation part of the query witness only exists with UNIFEX_ENABLE_CONTINUATION_VISITATIONS: it is compiled
# with the v20 flags in every tier (registered under the d20 configuration so that the quick tier runs it too)
_mk('R-WITNESS-VISIT', ['C20'], 'queries.cpp', ['d20'],
    'type-level witness, compiled with UNIFEX_ENABLE_CONTINUATION_VISITATIONS=1: from the receiver handed to a child at each of the 29 adaptor positions, a walk over the continuation chain with an rvalue visitor (what async_trace does) reaches the consumer\'s receiver - every receiver on the way customises visit_continuations for `Func&&`',
    flags_cfg='v20')
