"""R-SMF-FLAG — special member functions of value types that keep an object in a manually managed slot
(`manual_lifetime<T> x_` alive iff a handle/bool member is set): copy/move constructors and assignment
operators leave the slot alive exactly when the discriminator they leave behind is set.

The walker is path-sensitive over the function's own event graph.  State = (slot alive?, truth of this
object's discriminator, what the path has learned about the *other* object's discriminator).  Branches on
`d_` / `other.d_` prune and refine; `d_ = other.d_` (also through std::move / member initialiser) copies the
learned truth; construct/destruct of *this* object's slot flip `alive`.  At every exit alive == truth(d_)
must hold whenever both are known.
"""
import re

from ..core import rule, site, Broken
from ..facts import Graph, events, last_field, expr_paths

CONS = {'construct', 'construct_with', 'emplace'}
DES = {'destruct', 'reset'}


def _truthy_member(c, names, want_this):
    """(member, polarity) when condition c tests `m` / `m.operator bool()` / `!m` of this object (want_this) or of another object"""
    pol = True
    while isinstance(c, dict) and c.get('op') == 'un' and c.get('o') == '!': c = c.get('e'); pol = not pol
    if not isinstance(c, dict) or c.get('op') not in ('path', 'call'): return None
    p = (c.get('p') or '').replace('.operator bool()', '')
    parts = p.split('.')
    if parts[-1] not in names: return None
    is_this = len(parts) == 1 or (len(parts) == 2 and parts[0] == 'this')
    if is_this != want_this: return None
    if not is_this and len(parts) != 2: return None
    return parts[-1], pol


def discriminated_slots(F):
    """[(record, discriminator member, slot member)]: the destructor destructs `slot` only under `if (d)`"""
    out = []
    for f in F.funcs:
        if not f.get('dtor') or not f.get('blocks') or not f.get('record'): continue
        rec = (F.rec_by_q.get(f['record']) or [None])[0]
        if rec is None: continue
        names = {fl['name'] for fl in rec['fields'] if not fl.get('static')}
        G = Graph(f)
        for t, te in G.ev.items():
            if te.get('k') != 'term' or te.get('cond') is None: continue
            tm = _truthy_member(te['cond'], names, True)
            if tm is None: continue
            d, pol = tm
            st = [m for m, lab in G.succ.get(t, []) if lab is pol]
            if not st: continue
            for n in G.reach(st[0], blocked={t}):
                e = G.ev[n]
                if e.get('k') == 'call' and e['callee'].get('name') in DES:
                    b = (e['callee'].get('base') or '').split('.')
                    if b[-1] in names and b[-1] != d and (len(b) == 1 or b[0] == 'this'):
                        if n not in G.reach(G.entry, blocked={st[0]}): out.append((rec, d, b[-1]))
    return sorted(set((r['qname'], d, s) for r, d, s in out)), {r['qname']: r for r, _, _ in out}


def _walk(G, f, d, slot, entry_states, other):
    IN = {}
    work = []
    def push(n, st):
        s = IN.setdefault(n, set())
        if st not in s: s.add(st); work.append((n, st))
    push(G.entry, None)
    IN[G.entry] = set()
    for st in entry_states: push(G.entry, st)
    bad = []
    names = {d}
    steps = 0
    while work:
        steps += 1
        if steps > 200000: break
        n, st = work.pop()
        if st is None: continue
        live, dt, ot = st
        e = G.ev[n]
        k = e.get('k')
        if k == 'call':
            nm = e['callee'].get('name')
            b = (e['callee'].get('base') or '').split('.')
            mine = b[-1] == slot and (len(b) == 1 or b[0] == 'this')
            if nm in CONS and mine: live = True
            elif nm in DES and mine: live = False
            elif nm == 'operator=' and (b[-1] == d and (len(b) == 1 or b[0] == 'this')):
                src = [p for a in e.get('args', []) for p in expr_paths(a)]
                if any(last_field(p) == d and p.split('.')[0] == other for p in src): dt = ot
                elif any(p in ('#null',) for p in src): dt = False
                else: dt = None
            elif nm in ('swap',) :
                ps = [p for a in e.get('args', []) for p in expr_paths(a)]
                if any(last_field(p) == d for p in ps): dt, ot = ot, dt
        elif k == 'assign' and last_field(e.get('lhs') or '') == d and e['lhs'].split('.')[0] in ('this', d):
            src = expr_paths(e.get('rhs'))
            if any(last_field(p) == d and p.split('.')[0] == other for p in src): dt = ot
            elif src == ['#null'] or src == ['#false']: dt = False
            elif src == ['#true']: dt = True
            else: dt = None
        elif k == 'init' and e.get('field') == d:
            src = expr_paths(e.get('v'))
            if any(last_field(p.replace('.operator bool()', '')) == d and p.split('.')[0] == other for p in src) or any('exchange' in p or other in p for p in src): dt = ot
            else: dt = None
        if n == G.exit:
            if dt is not None and live != dt: bad.append((n, st))
        for m, lab in G.succ.get(n, []):
            l2, d2, o2 = live, dt, ot
            if k == 'term' and e.get('cond') is not None and lab in (True, False):
                tm = _truthy_member(e['cond'], names, True)
                if tm is not None:
                    val = (lab == tm[1])
                    if d2 is not None and d2 != val: continue
                    d2 = val
                to = _truthy_member(e['cond'], names, False)
                if to is not None and (e['cond'].get('p') or (e['cond'].get('e') or {}).get('p') or '').split('.')[0] == other:
                    val = (lab == to[1])
                    if o2 is not None and o2 != val: continue
                    o2 = val
            if lab == 'exc': continue
            push(m, (l2, d2, o2))
    return bad


@rule('R-SMF-FLAG', ['C09', 'C08', 'C02', 'C18'], floor=2)
def smf_flag(run, F):
    """copy/move constructors and assignment operators of value types that keep a manually managed slot alive iff a handle/flag member is set (v2 nest_sender: sender_ alive iff scope_) leave the slot alive exactly when the discriminator they leave behind is set, on every path, for every combination of the two objects' states (path-sensitive typestate with the other object's discriminator learned from branches): no sender is leaked or destroyed twice by assigning from / to an empty object"""
    slots, recs = discriminated_slots(F)
    n = 0
    for rq, d, slot in slots:
        rec = recs[rq]
        short = rq.split('::')[-1]
        for g in F.by_record.get(rq, []):
            if not g.get('blocks'): continue
            ps = g.get('params', [])
            is_assign = g['name'] == 'operator=' and len(ps) == 1
            is_cm = g.get('ctor') and len(ps) == 1 and re.search(r'\b%s\b' % re.escape(short), ps[0]['type'])
            if not (is_assign or is_cm): continue
            other = ps[0]['name']
            if not other: continue
            G = Graph(g)
            entry = [(True, True, True), (True, True, False), (False, False, True), (False, False, False)] if is_assign else [(False, None, True), (False, None, False)]
            n += 1
            run.inst(site(g), '%s: %s alive iff %s set at every exit' % (g['name'], slot, d), key=(rq, g['name'], tuple(p['type'] for p in ps)))
            for node, st in _walk(G, g, d, slot, entry, other)[:1]:
                live, dt, ot = st
                run.violation(g['qname'], 'smf-flag:%s/%s' % (d, slot), '%s:%s' % (g['file'], g['line']),
                              '%s of %s can return with %s %s while %s is %s (path: this object %s, other object %s): the destructor then %s' % (
                                  g['name'], rq.replace('unifex::', ''), slot, 'alive' if live else 'not alive', d, 'set' if dt else 'empty',
                                  'initially non-empty' if is_assign else 'under construction', 'non-empty' if ot else 'empty' if ot is False else 'in any state',
                                  'never destroys the stored object (leak)' if live else 'destroys an object that is not there'))
    if n == 0: raise Broken('no special member function of a discriminated-slot value type found')


def _mentions(x, name):
    if isinstance(x, dict):
        for k, v in x.items():
            if k == 'p' and isinstance(v, str) and (v == name or v.startswith(name + '.') or ('(' + name) in v): return True
            if _mentions(v, name): return True
    elif isinstance(x, list):
        return any(_mentions(v, name) for v in x)
    return False


@rule('R-ASSIGN-ALIAS', ['C18', 'C02'], floor=2)
def assign_alias(run, F):
    """an assignment operator that takes its right-hand side by reference (T&& / const T&) does not release or overwrite its own state before it has finished reading the right-hand side, unless a self-assignment test (`this != &other`) guards it: otherwise `w = std::move(w)`, or assigning from an object owned by the current value (pop-front of a chain of wrappers), destroys the object being transferred.  By-value (copy-and-swap) operators are safe by construction and are recorded as such"""
    n = 0
    for f in F.funcs:
        if f['name'] != 'operator=' or not f.get('blocks') or not f.get('record') or f.get('lambda'): continue
        ps = f.get('params', [])
        if len(ps) != 1: continue
        short = re.sub(r'<.*', '', f['record'].split('::')[-1])
        t = ps[0]['type']
        if not re.search(r'\b%s\b' % re.escape(short), t):
            continue
        n += 1
        if not t.rstrip().endswith('&'):
            run.inst(site(f), 'by-value right-hand side (copy-and-swap): alias-safe', nontrivial=False, key=(f['record'], t)); continue
        other = ps[0]['name']
        G = Graph(f)
        run.inst(site(f), 'reference right-hand side: own state untouched until the right-hand side was read, or self-test', key=(f['record'], t))
        # self-assignment tests
        guards = set()
        for tn, e in G.ev.items():
            if e.get('k') == 'term' and e.get('cond') is not None and _mentions(e['cond'], 'this') and (_mentions(e['cond'], other) or any(
                    G.ev[m].get('k') == 'call' and _mentions(G.ev[m].get('args'), other) for m in G.ev if m[0] == tn[0])):
                c = e['cond']; pol = True
                while isinstance(c, dict) and c.get('op') == 'un' and c.get('o') == '!': c = c.get('e'); pol = not pol
                ne = isinstance(c, dict) and c.get('op') == 'bin' and c.get('o') == '!='
                want = pol if ne else (not pol)
                for m, lab in G.succ.get(tn, []):
                    if lab is want: guards.add(m)
        reads = [m for m, e in G.ev.items() if e.get('k') in ('call', 'assign', 'decl', 'ret', 'init') and _mentions({k: v for k, v in e.items() if k != 'callee'} if e.get('k') != 'call' else {'a': e.get('args'), 'b': e['callee'].get('base')}, other)]
        for m, e in G.ev.items():
            own = False
            if e.get('k') == 'call':
                b = e['callee'].get('base')
                nm = (e['callee'].get('name') or '').split('::')[-1]
                if nm in ('addressof', 'move', 'forward', 'get', 'exchange', 'swap', 'operator bool', 'as_const'): continue
                if _mentions(e.get('args'), other): continue          # it reads the right-hand side itself
                if b is not None and (b == 'this' or b.startswith('this.')) and not (b or '').startswith(other): own = True
                elif b is None and e['callee'].get('kind') in ('member', 'dep_member', 'unresolved') and any(g['name'] == nm for g in F.by_record.get(f['record'], [])): own = True
                elif e['callee'].get('kind') == 'localvar' and nm in ('destroy', 'deallocate'): own = True
            elif e.get('k') == 'delete': own = True
            if not own: continue
            later = [r for r in reads if r != m and r in G.reach(m)]
            if later and not (guards and G.dominated_by_any(m, guards)):
                run.violation(f['qname'], 'release-before-read', '%s:%s' % (f['file'], G.line(m)),
                              '%s releases/modifies its own state (%s) before it has read the right-hand side `%s` (still read at line %s) and without a self-assignment test: `x = std::move(x)` or assigning from an object owned by the current value destroys the object being transferred' % (
                                  f['qname'].replace('unifex::', ''), (e.get('callee') or {}).get('name') or 'delete', other, G.line(later[0])))
                break
    if n == 0: raise Broken('no assignment operator found')
