"""R-NOEXCEPT-BODY — a conditional noexcept specification accounts for the customisation points its body calls.

For every function whose exception specification is a dependent expression (`noexcept(<traits>)`), each call in
its body to a potentially-throwing customisation point - connect, set_next, set_value (value channel), schedule,
std::invoke - that is *not* covered by a try block must be reflected in the specification: the noexcept
expression mentions the corresponding trait or the call itself (is_nothrow_connectable / noexcept(connect(..)),
is_nothrow_next_receiver / set_next, is_nothrow_receiver_of / set_value, ..schedule.., ..invocable/callable..).
Otherwise the function claims noexcept for arguments whose customisation throws, and the exception that the
property says is "reported through set_error or propagates out of connect" becomes std::terminate.
The accepted spellings are enumerated from the tree (52 of 53 sites agreed on the pinned tree; the odd one was
finding F15).
"""
import re

from ..core import rule, site, Broken
from ..facts import Graph

MARK = {
    'connect': r'connectable|connect\s*\(|connect_inner|nothrow_connect',
    'set_next': r'next_receiver|set_next',
    'set_value': r'receiver_of|set_value|nothrow_callable|nothrow_value|is_nothrow_receiver',
    'schedule': r'schedule',
    'invoke': r'invocable|invoke|callable',
}


@rule('R-NOEXCEPT-BODY', ['C02', 'C05', 'C17', 'C12', 'C20'], floor=30)
def noexcept_body(run, F):
    """every function with a conditional noexcept specification mentions, in that specification, each potentially-throwing customisation point (connect, set_next, set_value, schedule, std::invoke) that its body calls outside a try block: the specification cannot promise noexcept for a source whose connect throws or a receiver whose set_next throws (the exception would become std::terminate instead of propagating / being reported through set_error)"""
    n = 0
    for f in F.funcs:
        if f.get('noexcept') != 'dependent' or not f.get('blocks') or f.get('lambda'): continue
        txt = f.get('noexcept_text')
        if txt is None: raise Broken('facts carry no noexcept_text (extractor too old)')
        G = Graph(f)
        seen = set()
        for node, e in G.ev.items():
            if e.get('k') != 'call': continue
            nm = (e['callee'].get('name') or '').split('::')[-1]
            q = e['callee'].get('qname') or ''
            if nm not in MARK: continue
            if not (q.startswith('unifex::') or q.startswith('std::') or e['callee'].get('kind') in ('cpo', 'unresolved')): continue
            if any(l == 'exc' for _, l in G.succ.get(node, [])): continue      # covered by a handler
            if (e.get('macro') or '').startswith(('UNIFEX_ASSERT', 'assert')): continue
            n += 1
            run.inst(site(f, e.get('line')), 'noexcept(%s...) accounts for %s' % (txt[:40], nm), key=(f['qname'], nm, e.get('line')))
            if nm in seen: continue
            if not re.search(MARK[nm], txt):
                seen.add(nm)
                run.violation(f['qname'], 'noexcept-omits:' + nm, '%s:%s' % (f['file'], e.get('line')),
                              'the conditional noexcept specification of %s (`%s`) does not account for the %s() it calls outside any try block: when that customisation throws, the function is noexcept(true) and the exception becomes std::terminate instead of propagating / being reported through set_error' % (
                                  f['qname'].replace('unifex::', ''), txt[:160], nm))
    if n == 0: raise Broken('no conditional-noexcept function calling a customisation point found')
