"""R-NOEXCEPT-BODY — a conditional noexcept specification accounts for the customisation points its body calls.

For every function whose exception specification is a dependent expression (`noexcept(<traits>)`), each call in
its body to a potentially-throwing customisation point - connect, set_next, set_value (value channel), schedule,
std::invoke - that is *not* covered by a try block must be reflected in the specification: the noexcept
expression mentions the corresponding trait or the call itself (is_nothrow_connectable / noexcept(connect(..)),
is_nothrow_next_receiver / set_next, is_nothrow_receiver_of / set_value, ..schedule.., ..invocable/callable..).
Otherwise the function claims noexcept for arguments whose customisation throws, and the exception that the
property says is "reported through set_error or propagates out of connect" becomes std::terminate.
The accepted spellings are enumerated from the tree (52 of 53 sites agreed on the pinned tree; the odd one was
finding F15).
"""
import re

from ..core import rule, site, Broken
from ..facts import Graph

MARK = {
    'connect': r'connectable|connect\s*\(|connect_inner|nothrow_connect',
    'set_next': r'next_receiver|set_next',
    'set_value': r'receiver_of|set_value|nothrow_callable|nothrow_value|is_nothrow_receiver',
    'schedule': r'schedule',
    'invoke': r'invocable|invoke|callable',
}


@rule('R-NOEXCEPT-BODY', ['C02', 'C05', 'C17', 'C12', 'C20'], floor=30)
def noexcept_body(run, F):
    """every function with a conditional noexcept specification mentions, in that specification, each potentially-throwing customisation point (connect, set_next, set_value, schedule, std::invoke) that its body calls outside a try block: the specification cannot promise noexcept for a source whose connect throws or a receiver whose set_next throws (the exception would become std::terminate instead of propagating / being reported through set_error)"""
    n = 0
    for f in F.funcs:
        if f.get('noexcept') != 'dependent' or not f.get('blocks') or f.get('lambda'): continue
        txt = f.get('noexcept_text')
        if txt is None: raise Broken('facts carry no noexcept_text (extractor too old)')
        G = Graph(f)
        seen = set()
        for node, e in G.ev.items():
            if e.get('k') != 'call': continue
            nm = (e['callee'].get('name') or '').split('::')[-1]
            q = e['callee'].get('qname') or ''
            if nm not in MARK: continue
            if not (q.startswith('unifex::') or q.startswith('std::') or e['callee'].get('kind') in ('cpo', 'unresolved')): continue
            if any(l == 'exc' for _, l in G.succ.get(node, [])): continue      # covered by a handler
            if (e.get('macro') or '').startswith(('UNIFEX_ASSERT', 'assert')): continue
            n += 1
            run.inst(site(f, e.get('line')), 'noexcept(%s...) accounts for %s' % (txt[:40], nm), key=(f['qname'], nm, e.get('line')))
            if nm in seen: continue
            if not re.search(MARK[nm], txt):
                seen.add(nm)
                run.violation(f['qname'], 'noexcept-omits:' + nm, '%s:%s' % (f['file'], e.get('line')),
                              'the conditional noexcept specification of %s (`%s`) does not account for the %s() it calls outside any try block: when that customisation throws, the function is noexcept(true) and the exception becomes std::terminate instead of propagating / being reported through set_error' % (
                                  f['qname'].replace('unifex::', ''), txt[:160], nm))
    if n == 0: raise Broken('no conditional-noexcept function calling a customisation point found')


# ---------------------------------------------------------------------------------------------- R-NOEXCEPT-KIND
import json, os, sys, collections
from ..core import VERIF
from ..facts import may_throw
KTABLE = os.path.join(VERIF, 'tables', 'noexcept_kinds.json')
PROTOCOL_FUNCS = {'set_value', 'set_error', 'set_done', 'set_next', 'start', 'operator()', 'tag_invoke', 'connect', 'stop', 'request_stop'}
THROWY = {'emplace', 'construct', 'construct_with', 'activate_union_member', 'activate_union_member_with', 'invoke', 'connect', 'push_back', 'emplace_back', 'allocate',
          'set_value', 'set_next', 'schedule', 'submit'}


def _kinds(F):
    out = {}
    for f in F.funcs:
        if f['name'] not in PROTOCOL_FUNCS or f.get('lambda') or not f.get('blocks') or not f.get('record'): continue
        from .polarity import norm_fn
        k = (f['file'], norm_fn(f['record']), f['name'], len(f.get('params', [])))
        out.setdefault(k, []).append(f)
    return out


@rule('R-NOEXCEPT-KIND', ['C05', 'C02', 'C01'], floor=200)
def noexcept_kind(run, F):
    """a protocol function (receiver handlers set_value/set_error/set_done/set_next, start, connect, stop hooks, callbacks) whose exception specification was not an unconditional noexcept on the pinned tree (frozen table tables/noexcept_kinds.json) has not become unconditionally noexcept while its body still calls something that can throw (a copy/emplace of user values, a user callable, connect) outside any try block: the throw that the sender contract routes back to the caller's handler (-> set_error) would become std::terminate"""
    with open(KTABLE) as fh: tab = {(r['file'], r['cls'], r['name'], r['nparams']): r for r in json.load(fh)['rows']}
    n = 0
    for k, fs in _kinds(F).items():
        r = tab.get(k)
        if r is None: continue
        n += 1
        run.inst('%s:%s %s::%s' % (k[0], fs[0]['line'], k[1], k[2]), 'exception specification kind: %s' % r['kinds'], key=k)
        for f in fs:
            kind = f.get('noexcept')
            if kind == 'yes' and 'yes' not in r['kinds']:
                G = Graph(f)
                bad = None
                for node, e in G.ev.items():
                    if e.get('k') != 'call' or e.get('nothrow'): continue
                    nm = (e['callee'].get('name') or '').split('::')[-1]
                    if nm not in THROWY: continue
                    if any(l == 'exc' for _, l in G.succ.get(node, [])): continue
                    if (e.get('macro') or '').startswith(('UNIFEX_ASSERT', 'assert')): continue
                    bad = (nm, e.get('line')); break
                if bad:
                    run.violation(f['qname'], 'noexcept-added', '%s:%s' % (f['file'], f['line']),
                                  '%s is now unconditionally noexcept (the frozen table has %s) although it calls %s() at line %s outside any try block: an exception thrown there no longer travels back to the caller (which reports it through set_error) but calls std::terminate' % (
                                      f['qname'].replace('unifex::', ''), '/'.join(r['kinds']), bad[0], bad[1]))
    if n == 0: raise Broken('no protocol function of the exception-specification table found')


def freeze_kinds():
    from .. import extract
    from ..facts import Facts
    cfgs = ['d20', 'd17', 'r17', 'r20', 'v20']
    files, _ = extract.extract(cfgs)
    acc = collections.defaultdict(set)
    for c in cfgs:
        for k, fs in _kinds(Facts(files[c], c)).items():
            for f in fs: acc[k].add(f.get('noexcept') or 'none')
    rows = [dict(file=k[0], cls=k[1], name=k[2], nparams=k[3], kinds=sorted(v)) for k, v in sorted(acc.items())]
    with open(KTABLE, 'w') as fh: json.dump(dict(_doc='frozen exception-specification kinds of protocol functions; see usa/rules/noexcept.py', rows=rows), fh, indent=0)
    print(len(rows), 'functions', collections.Counter(tuple(r['kinds']) for r in rows))


if __name__ == '__main__':
    if '--freeze-kinds' in sys.argv: freeze_kinds()
