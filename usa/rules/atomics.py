"""R-MO — memory orders of every atomic operation, against a frozen role table.

tables/atomics.json lists every atomic load/store/RMW/fence site of the library keyed by
(function, member, operation) with the order it needs (success order, and failure order for CAS).
The table was generated from the pinned tree (`python3 -m usa.rules.atomics --freeze`) and then read
site by site; the `role` column says why the order is needed.  The rule compares the current tree
against it in the lattice  relaxed < {acquire, release} < acq_rel < seq_cst  (acquire and release are
incomparable):

  * a site whose order is weaker than (or incomparable with) its table row      -> violation
  * a stronger order, an additional site, a renamed local                         -> silent
  * a table row whose (function, member, op) no longer exists                     -> analysis broken

Matching is by multiset per key, never by line number.
"""
import collections, json, os, re, sys

from ..core import rule, site, Broken, VERIF
from ..facts import events, last_field, memorder

OPS = {'load', 'store', 'fetch_add', 'fetch_sub', 'fetch_or', 'fetch_and', 'fetch_xor', 'exchange', 'compare_exchange_strong',
       'compare_exchange_weak', 'atomic_thread_fence'}
TABLE = os.path.join(VERIF, 'tables', 'atomics.json')

FILE_PROP = [
    (r'when_all|stop_when', 'C01'),
    (r'inplace_stop_token', 'C03'),
    (r'atomic_intrusive_queue|new_thread_context|static_thread_pool|manual_event_loop', 'C06'),
    (r'async_scope', 'C08'),
    (r'spawn_future', 'C09'),
    (r'task\.', 'C10'),
    (r'take_until|stop_immediately|type_erased_stream', 'C13'),
    (r'io_epoll|io_uring', 'C14'),
    (r'async_mutex|atomic_intrusive_list', 'C15'),
    (r'async_manual_reset_event|async_pass', 'C16'),
    (r'cancellable|canary|detach_on_cancel|stop_on_request', 'C19'),
    (r'async_stack', 'C20'),
]

GE = {   # order a satisfies requirement b
    'relaxed': {'relaxed'},
    'consume': {'relaxed', 'consume'},
    'acquire': {'relaxed', 'consume', 'acquire'},
    'release': {'relaxed', 'release'},
    'acq_rel': {'relaxed', 'consume', 'acquire', 'release', 'acq_rel'},
    'seq_cst': {'relaxed', 'consume', 'acquire', 'release', 'acq_rel', 'seq_cst'},
}


def prop_of_file(file):
    for rx, p in FILE_PROP:
        if re.search(rx, file): return p
    return None


def norm_fn(q):
    q = re.sub(r'inplace_stop_callback_base_d', 'inplace_stop_callback_base', q)
    q = re.sub(r'<[^<>]*>', '', q); q = re.sub(r'<[^<>]*>', '', q)
    q = re.sub(r'\(anonymous class\)::operator\(\)(\([^)]*\))?', '(lambda)', q)
    return q


def sites(F):
    out = []
    for f in F.funcs:
        for b, i, e in events(f):
            if e['k'] != 'call': continue
            ce = e['callee']; nm = ce.get('name')
            if nm not in OPS: continue
            mo = memorder(e)
            isatomic = 'atomic' in (ce.get('basetype', '') + ce.get('qname', ''))
            if nm == 'atomic_thread_fence':
                member = '<fence>'
            else:
                if not mo and not isatomic: continue
                if not mo and nm not in ('load',): continue
                member = last_field(ce.get('base', '')) or '?'
                member = member.replace('#next_op_base::', '')
            if not mo: mo = ['seq_cst']
            if (e.get('macro') or '').startswith(('UNIFEX_ASSERT', 'assert')): continue
            out.append(dict(file=f['file'], fn=norm_fn(f['qname']), member=member, op=nm, orders=mo[:2], line=e['line'], f=f))
    return out


def load_table():
    with open(TABLE) as fh: return json.load(fh)['sites']


def _fam(fn):
    from ..facts import family_of
    return family_of(fn)


def _check(run, F, prop):
    """rows and sites are matched per (file, family namespace, member, operation) - not per function, so that moving an
    atomic operation into a helper of the same algorithm (or merging duplicated code) is silent.  Within a key the
    i-th strongest site must satisfy the i-th strongest requirement; sites beyond the number of rows must satisfy the
    weakest requirement of the key; rows beyond the number of sites (merged duplicates) are dropped."""
    tab = [r for r in load_table() if r['prop'] == prop and (not r.get('configs') or F.config in r['configs'])]
    if not tab: raise Broken('no table rows for ' + prop)
    cur = collections.defaultdict(list)
    for s in sites(F):
        cur[(s['file'], _fam(s['fn']), s['member'], s['op'])].append(s)
    need = collections.defaultdict(list)
    for r in tab: need[(r['file'], _fam(r['fn']), r['member'], r['op'])].append(r)
    def strength(o): return len(GE.get(o, ()))
    def sat(site, row): return all(req in GE.get(got, ()) for req, got in zip(row['orders'], site['orders'] + ['seq_cst'] * 2))
    for key, rows in need.items():
        have = list(cur.get(key, []))
        if not have:
            # C++20-only code is absent from gnu++17 configurations
            if all(r.get('cxx20') for r in rows) and '17' in F.config:
                for r in rows: run.inst('%s %s' % (r['file'], key[1]), 'C++20-only code: absent from this configuration', nontrivial=False, key=key + ('n/a',))
                continue
            run.broke('atomic site vanished: %s %s.%s (table has %d, tree has none in %s)' % (key[1], key[2], key[3], len(rows), key[0]))
            continue
        rows = sorted(rows, key=lambda r: -strength(r['orders'][0]))
        have.sort(key=lambda s: -strength(s['orders'][0]))
        for i, s in enumerate(have):
            r = rows[i] if i < len(rows) else rows[-1]
            run.inst('%s:%s %s' % (s['file'], s['line'], s['fn']), '%s.%s needs %s (%s)' % (key[2], key[3], '/'.join(r['orders']), r.get('role', '')), key=key + (i,))
            if not sat(s, r):
                # a weaker site may still be fine if some other pairing works: try exact multiset matching before reporting
                ok = False
                if len(have) == len(rows):
                    rest = list(have); ok = True
                    for rr in rows:
                        cand = [x for x in rest if sat(x, rr)]
                        if not cand: ok = False; break
                        rest.remove(min(cand, key=lambda x: strength(x['orders'][0])))
                if ok: break
                run.violation(s['f']['qname'], 'mo:%s.%s' % (key[2], key[3]), '%s:%s' % (s['file'], s['line']),
                              '%s.%s uses memory_order %s but its role needs %s: %s' % (key[2], key[3], '/'.join(s['orders']), '/'.join(r['orders']), r.get('role', 'ordering required by the protocol')))


def _mk(prop, floor):
    @rule('R-MO-' + prop, [prop], floor=floor)
    def r(run, F, prop=prop):
        _check(run, F, prop)
    r.__doc__ = 'memory order of every atomic load/store/RMW/fence site owned by %s is at least the order its role needs (frozen table tables/atomics.json; stronger is fine, weaker or incomparable is a violation, a vanished site is analysis-broken)' % prop
    RULES_DOC[prop] = r.__doc__
    from .. import core
    core.RULES['R-MO-' + prop]['doc'] = r.__doc__
    return r


RULES_DOC = {}
try:
    _t = load_table()
    _cnt = collections.Counter(r['prop'] for r in _t)
    for _p, _n in sorted(_cnt.items()):
        if _p == 'C03': continue        # C03 has its own, role-derived memory-order rule
        _mk(_p, max(1, _n // 3))
except FileNotFoundError:
    pass


# ---------------------------------------------------------------------------------------------- R-AVAL
VTABLE = os.path.join(VERIF, 'tables', 'atomic_values.json')
WRITE_OPS = {'store': 0, 'exchange': 0, 'compare_exchange_strong': 1, 'compare_exchange_weak': 1, 'fetch_add': 0, 'fetch_sub': 0,
             'fetch_or': 0, 'fetch_and': 0, 'fetch_xor': 0}


def _const(a):
    """normalised constant written by an argument expression, None when it is not a compile-time constant"""
    if not isinstance(a, dict): return None
    if a.get('op') == 'path':
        p = a.get('p') or ''
        if 'memory_order' in p: return None
        if p.startswith('#'): return p.split('::')[-1] if '::' in p else p     # literal / enumerator / nullptr
        return None
    if a.get('op') == 'un' and a.get('o') in ('-', '~'):
        c = _const(a.get('e'))
        return None if c is None else a['o'] + c
    if a.get('op') == 'bin':
        l, r = _const(a.get('l')), _const(a.get('r'))
        if l is not None and r is not None: return '(%s%s%s)' % (l, a.get('o'), r)
    return None


def _local_const_inits(f):
    """local variable -> constant it is initialised with, for locals that are declared once with a constant and never assigned"""
    init, bad = {}, set()
    for b, i, e in events(f):
        if e['k'] == 'decl':
            for v in e['vars']:
                c = _const(v.get('init'))
                if v['var'] in init or c is None: bad.add(v['var'])
                init[v['var']] = c
        elif e['k'] in ('assign', 'incdec'):
            bad.add(e.get('lhs'))
    return {k: v for k, v in init.items() if k not in bad and v is not None}


def _named_constants(F):
    """static constexpr members / variables initialised with an integer literal: name -> '#<value>'"""
    out = {}
    for r in F.recs:
        for fl in r['fields']:
            if fl.get('static') and fl.get('init_text'):
                m = re.fullmatch(r'\s*(?:std::)?(?:\w+\s*[({]\s*)?(-?\d+)[uUlL]*\s*[)}]?\s*', fl['init_text'])
                if m: out.setdefault(fl['name'], set()).add('#' + m.group(1))
    return {k: next(iter(v)) for k, v in out.items() if len(v) == 1}


def value_sites(F, with_unknown=False):
    out = []
    named = _named_constants(F)
    def cst(a):
        c = _const(a)
        if c is None and isinstance(a, dict) and a.get('op') == 'path':
            nm = (a.get('p') or '').split('.')[-1].split('::')[-1]
            return named.get(nm)
        return c
    for f in F.funcs:
        loc = None
        for b, i, e in events(f):
            if e['k'] != 'call': continue
            ce = e['callee']; nm = ce.get('name')
            if nm not in WRITE_OPS: continue
            if not memorder(e) and 'atomic' not in (ce.get('basetype', '') + ce.get('qname', '')): continue
            if (e.get('macro') or '').startswith(('UNIFEX_ASSERT', 'assert')): continue
            args = e.get('args', [])
            idx = WRITE_OPS[nm]
            if idx >= len(args): continue
            c = cst(args[idx])
            frm = None
            if nm.startswith('compare_exchange') and isinstance(args[0], dict) and args[0].get('op') == 'path':
                if loc is None: loc = _local_const_inits(f)
                frm = loc.get(args[0].get('p'))
            if c is None and frm is None and not with_unknown: continue
            member = (last_field(ce.get('base', '')) or '?').replace('#next_op_base::', '')
            out.append(dict(file=f['file'], fn=norm_fn(f['qname']), member=member, op=nm, value=c, expected=frm, line=e['line'], f=f))
    return out


def _check_values(run, F, prop):
    """per (file, family namespace, member, operation): every constant a current site writes/expects must be one the frozen
    table lists for that key; constants that merely disappeared (merged duplicates, code moved to a helper) are silent"""
    with open(VTABLE) as fh: tab = [r for r in json.load(fh)['sites'] if r['prop'] == prop]
    if not tab: raise Broken('no value rows for ' + prop)
    cur = collections.defaultdict(list)
    anysite = set()
    for s in value_sites(F, with_unknown=True):
        k = (s['file'], _fam(s['fn']), s['member'], s['op'])
        anysite.add(k)
        if s.get('value') is not None or s.get('expected') is not None: cur[k].append(s)
    need = collections.defaultdict(list)
    for r in tab: need[(r['file'], _fam(r['fn']), r['member'], r['op'])].append(r)
    for key, rows in sorted(need.items()):
        have = cur.get(key, [])
        if not have and key in anysite:
            run.inst('%s %s' % (rows[0]['file'], key[1]), '%s.%s: the operand is no longer a literal or a named integral constant: not decided' % (key[2], key[3]), nontrivial=False, key=key + ('n/d',)); continue
        if not have:
            if all(r.get('cxx20') for r in rows) and '17' in F.config:
                run.inst('%s %s' % (rows[0]['file'], key[1]), 'C++20-only code: absent from this configuration', nontrivial=False, key=key + ('n/a',)); continue
            if all(F.config not in r.get('configs', [F.config]) for r in rows):
                run.inst('%s %s' % (rows[0]['file'], key[1]), 'absent from this configuration', nontrivial=False, key=key + ('n/a',)); continue
            run.broke('atomic write site with a constant operand vanished: %s %s.%s in %s' % (key[1], key[2], key[3], key[0])); continue
        want_v = {r.get('value') for r in rows if r.get('value')}
        want_e = {r.get('expected') for r in rows if r.get('expected')}
        run.inst('%s:%s %s' % (have[0]['file'], have[0]['line'], key[1]), '%s.%s writes %s expects %s' % (key[2], key[3], sorted(want_v), sorted(want_e)), key=key)
        for s in have:
            badv = s.get('value') and s['value'] not in want_v
            bade = s.get('expected') and want_e and s['expected'] not in want_e
            if badv or bade:
                run.violation(s['f']['qname'], 'aval:%s.%s' % (key[2], key[3]), '%s:%s' % (s['file'], s['line']),
                              '%s.%s in %s now %s where the frozen protocol table has %s: a state transition, count or flag value of the protocol changed' % (
                                  key[2], key[3], s['fn'].split('::')[-1],
                                  ('writes %s' % s['value']) if badv else ('expects %s' % s['expected']),
                                  sorted(want_v) if badv else sorted(want_e)))


def _mkv(prop, floor):
    @rule('R-AVAL-' + prop, [prop], floor=floor)
    def r(run, F, prop=prop):
        _check_values(run, F, prop)
    r.__doc__ = 'every atomic store/exchange/RMW/compare-exchange of %s that writes a compile-time constant (enumerator, literal, nullptr, flag) - and every compare-exchange whose expected value is a local initialised with a constant - writes/expects the constant frozen in tables/atomic_values.json: the transition relation of the state machines, the amounts of the reference counts and the polarity of the flags are unchanged (variables are not compared; a vanished site is analysis-broken)' % prop
    from .. import core
    core.RULES['R-AVAL-' + prop]['doc'] = r.__doc__
    return r


try:
    with open(VTABLE) as _fh: _vt = json.load(_fh)['sites']
    _vc = collections.Counter(r['prop'] for r in _vt)
    for _p, _n in sorted(_vc.items()):
        _mkv(_p, max(1, len({(r['fn'], r['member'], r['op']) for r in _vt if r['prop'] == _p}) // 3))
except FileNotFoundError:
    pass


def freeze_values():
    from .. import extract
    from ..facts import Facts
    cfgs = ['d20', 'd17', 'r17', 'r20', 'v20']
    files, dg = extract.extract(cfgs)
    per = {c: value_sites(Facts(files[c], c)) for c in cfgs}
    k17 = {(s['fn'], s['member'], s['op']) for s in per['d17']}
    rows = []
    base = per['d20']
    for s in sorted(base, key=lambda s: (s['file'], s['line'])):
        p = prop_of_file(s['file'])
        if not p: print('UNOWNED', s['file'], s['line'], s['fn'], s['member'], s['op'], s['value']); continue
        r = dict(prop=p, file=s['file'], fn=s['fn'], member=s['member'], op=s['op'], value=s['value'], expected=s['expected'])
        if (s['fn'], s['member'], s['op']) not in k17: r['cxx20'] = True
        rows.append(r)
    # consistency across configurations
    for c in cfgs:
        a = sorted((s['fn'], s['member'], s['op'], s['value'] or '', s['expected'] or '') for s in per[c])
        b = sorted((s['fn'], s['member'], s['op'], s['value'] or '', s['expected'] or '') for s in base if not ('17' in c and (s['fn'], s['member'], s['op']) not in k17))
        if a != b: print('DIFFERS in', c, set(a) ^ set(b))
    with open(VTABLE, 'w') as fh:
        json.dump(dict(_doc='frozen constants written by atomic sites; see usa/rules/atomics.py (R-AVAL)', sites=rows), fh, indent=0)
    print(len(rows), 'sites', collections.Counter(r['prop'] for r in rows))


ROLE_HINT = {
    ('fetch_sub', 'acq_rel'): 'last-owner election: the winner must see every other owner\'s writes and publish its own',
    ('fetch_add', 'relaxed'): 'bail-out increment; ordering supplied by the matching decrement',
    ('fetch_add', 'acq_rel'): 'flag arbitration between completion and cancellation',
    ('exchange', 'acq_rel'): 'two-party rendezvous: second arrival must see the first one\'s writes',
    ('load', 'acquire'): 'consumes data published by a release store/RMW',
    ('store', 'release'): 'publishes preceding writes to an acquiring reader',
}


def freeze():
    from .. import extract
    from ..facts import Facts
    files, dg = extract.extract(['d20'])
    F = Facts(files['d20'], 'd20')
    files17, _ = extract.extract(['d17'])
    F17 = Facts(files17['d17'], 'd17')
    k17 = {(s['fn'], s['member'], s['op']) for s in sites(F17)}
    old = {}
    if os.path.exists(TABLE):
        for r in load_table(): old.setdefault((r['fn'], r['member'], r['op'], tuple(r['orders'])), []).append(r)
    rows = []
    for s in sorted(sites(F), key=lambda s: (s['file'], s['line'])):
        p = prop_of_file(s['file'])
        if not p: print('UNOWNED', s['file'], s['line'], s['fn'], s['member'], s['op']); continue
        prev = old.get((s['fn'], s['member'], s['op'], tuple(s['orders'])), [])
        role = prev.pop(0)['role'] if prev else ROLE_HINT.get((s['op'], s['orders'][0]), '')
        r = dict(prop=p, file=s['file'], fn=s['fn'], member=s['member'], op=s['op'], orders=s['orders'], role=role)
        if (s['fn'], s['member'], s['op']) not in k17: r['cxx20'] = True
        rows.append(r)
    os.makedirs(os.path.dirname(TABLE), exist_ok=True)
    with open(TABLE, 'w') as fh:
        json.dump(dict(_doc='frozen role table of atomic sites; see usa/rules/atomics.py', sites=rows), fh, indent=0)
    print(len(rows), 'sites', collections.Counter(r['prop'] for r in rows))


if __name__ == '__main__':
    if '--freeze' in sys.argv: freeze()
    if '--freeze-values' in sys.argv: freeze_values()
