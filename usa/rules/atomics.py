"""R-MO — memory orders of every atomic operation, against a frozen role table.

tables/atomics.json lists every atomic load/store/RMW/fence site of the library keyed by
(function, member, operation) with the order it needs (success order, and failure order for CAS).
The table was generated from the pinned tree (`python3 -m usa.rules.atomics --freeze`) and then read
site by site; the `role` column says why the order is needed.  The rule compares the current tree
against it in the lattice  relaxed < {acquire, release} < acq_rel < seq_cst  (acquire and release are
incomparable):

  * a site whose order is weaker than (or incomparable with) its table row      -> violation
  * a stronger order, an additional site, a renamed local                         -> silent
  * a table row whose (function, member, op) no longer exists                     -> analysis broken

Matching is by multiset per key, never by line number.
"""
import collections, json, os, re, sys

from ..core import rule, site, Broken, VERIF
from ..facts import events, last_field, memorder

OPS = {'load', 'store', 'fetch_add', 'fetch_sub', 'fetch_or', 'fetch_and', 'fetch_xor', 'exchange', 'compare_exchange_strong',
       'compare_exchange_weak', 'atomic_thread_fence'}
TABLE = os.path.join(VERIF, 'tables', 'atomics.json')

FILE_PROP = [
    (r'when_all|stop_when', 'C01'),
    (r'inplace_stop_token', 'C03'),
    (r'atomic_intrusive_queue|new_thread_context|static_thread_pool|manual_event_loop', 'C06'),
    (r'async_scope', 'C08'),
    (r'spawn_future', 'C09'),
    (r'task\.', 'C10'),
    (r'take_until|stop_immediately|type_erased_stream', 'C13'),
    (r'io_epoll|io_uring', 'C14'),
    (r'async_mutex|atomic_intrusive_list', 'C15'),
    (r'async_manual_reset_event|async_pass', 'C16'),
    (r'cancellable|canary|detach_on_cancel|stop_on_request', 'C19'),
    (r'async_stack', 'C20'),
]

GE = {   # order a satisfies requirement b
    'relaxed': {'relaxed'},
    'consume': {'relaxed', 'consume'},
    'acquire': {'relaxed', 'consume', 'acquire'},
    'release': {'relaxed', 'release'},
    'acq_rel': {'relaxed', 'consume', 'acquire', 'release', 'acq_rel'},
    'seq_cst': {'relaxed', 'consume', 'acquire', 'release', 'acq_rel', 'seq_cst'},
}


def prop_of_file(file):
    for rx, p in FILE_PROP:
        if re.search(rx, file): return p
    return None


def norm_fn(q):
    q = re.sub(r'inplace_stop_callback_base_d', 'inplace_stop_callback_base', q)
    q = re.sub(r'<[^<>]*>', '', q); q = re.sub(r'<[^<>]*>', '', q)
    q = re.sub(r'\(anonymous class\)::operator\(\)(\([^)]*\))?', '(lambda)', q)
    return q


def sites(F):
    out = []
    for f in F.funcs:
        for b, i, e in events(f):
            if e['k'] != 'call': continue
            ce = e['callee']; nm = ce.get('name')
            if nm not in OPS: continue
            mo = memorder(e)
            isatomic = 'atomic' in (ce.get('basetype', '') + ce.get('qname', ''))
            if nm == 'atomic_thread_fence':
                member = '<fence>'
            else:
                if not mo and not isatomic: continue
                if not mo and nm not in ('load',): continue
                member = last_field(ce.get('base', '')) or '?'
                member = member.replace('#next_op_base::', '')
            if not mo: mo = ['seq_cst']
            if (e.get('macro') or '').startswith(('UNIFEX_ASSERT', 'assert')): continue
            out.append(dict(file=f['file'], fn=norm_fn(f['qname']), member=member, op=nm, orders=mo[:2], line=e['line'], f=f))
    return out


def load_table():
    with open(TABLE) as fh: return json.load(fh)['sites']


def _check(run, F, prop):
    tab = [r for r in load_table() if r['prop'] == prop and (not r.get('configs') or F.config in r['configs'])]
    if not tab: raise Broken('no table rows for ' + prop)
    cur = collections.defaultdict(list)
    for s in sites(F):
        cur[(s['fn'], s['member'], s['op'])].append(s)
    need = collections.defaultdict(list)
    for r in tab: need[(r['fn'], r['member'], r['op'])].append(r)
    for key, rows in need.items():
        have = list(cur.get(key, []))
        if len(have) < len(rows):
            # C++20-only code is absent from gnu++17 configurations
            if not have and all(r.get('cxx20') for r in rows) and '17' in F.config:
                for r in rows: run.inst('%s %s' % (r['file'], key[0]), 'C++20-only code: absent from this configuration', nontrivial=False, key=key + ('n/a',))
                continue
            run.broke('atomic site vanished: %s %s.%s (table has %d, tree has %d)' % (key[0], key[1], key[2], len(rows), len(have)))
            continue
        # greedy matching: strongest requirements first, each takes the weakest site that satisfies it
        rows = sorted(rows, key=lambda r: -len(GE.get(r['orders'][0], ())))
        unmatched = []
        for r in rows:
            cand = [s for s in have if all(req in GE.get(got, ()) for req, got in zip(r['orders'], s['orders'] + ['seq_cst'] * 2))]
            run.inst('%s:%s %s' % (r['file'], have[0]['line'] if have else '?', key[0]), '%s.%s needs %s (%s)' % (key[1], key[2], '/'.join(r['orders']), r.get('role', '')), key=key + (tuple(r['orders']),))
            if cand:
                pick = min(cand, key=lambda s: len(GE.get(s['orders'][0], ())))
                have.remove(pick)
            else:
                unmatched.append(r)
        for r in unmatched:
            s = have[0] if have else cur[key][0]
            if have: have.remove(s)
            run.violation(s['f']['qname'], 'mo:%s.%s' % (key[1], key[2]), '%s:%s' % (s['file'], s['line']),
                          '%s.%s uses memory_order %s but its role needs %s: %s' % (key[1], key[2], '/'.join(s['orders']), '/'.join(r['orders']), r.get('role', 'ordering required by the protocol')))


def _mk(prop, floor):
    @rule('R-MO-' + prop, [prop], floor=floor)
    def r(run, F, prop=prop):
        _check(run, F, prop)
    r.__doc__ = 'memory order of every atomic load/store/RMW/fence site owned by %s is at least the order its role needs (frozen table tables/atomics.json; stronger is fine, weaker or incomparable is a violation, a vanished site is analysis-broken)' % prop
    RULES_DOC[prop] = r.__doc__
    from .. import core
    core.RULES['R-MO-' + prop]['doc'] = r.__doc__
    return r


RULES_DOC = {}
try:
    _t = load_table()
    _cnt = collections.Counter(r['prop'] for r in _t)
    for _p, _n in sorted(_cnt.items()):
        if _p == 'C03': continue        # C03 has its own, role-derived memory-order rule
        _mk(_p, max(1, _n // 3))
except FileNotFoundError:
    pass


ROLE_HINT = {
    ('fetch_sub', 'acq_rel'): 'last-owner election: the winner must see every other owner\'s writes and publish its own',
    ('fetch_add', 'relaxed'): 'bail-out increment; ordering supplied by the matching decrement',
    ('fetch_add', 'acq_rel'): 'flag arbitration between completion and cancellation',
    ('exchange', 'acq_rel'): 'two-party rendezvous: second arrival must see the first one\'s writes',
    ('load', 'acquire'): 'consumes data published by a release store/RMW',
    ('store', 'release'): 'publishes preceding writes to an acquiring reader',
}


def freeze():
    from .. import extract
    from ..facts import Facts
    files, dg = extract.extract(['d20'])
    F = Facts(files['d20'], 'd20')
    files17, _ = extract.extract(['d17'])
    F17 = Facts(files17['d17'], 'd17')
    k17 = {(s['fn'], s['member'], s['op']) for s in sites(F17)}
    old = {}
    if os.path.exists(TABLE):
        for r in load_table(): old.setdefault((r['fn'], r['member'], r['op'], tuple(r['orders'])), []).append(r)
    rows = []
    for s in sorted(sites(F), key=lambda s: (s['file'], s['line'])):
        p = prop_of_file(s['file'])
        if not p: print('UNOWNED', s['file'], s['line'], s['fn'], s['member'], s['op']); continue
        prev = old.get((s['fn'], s['member'], s['op'], tuple(s['orders'])), [])
        role = prev.pop(0)['role'] if prev else ROLE_HINT.get((s['op'], s['orders'][0]), '')
        r = dict(prop=p, file=s['file'], fn=s['fn'], member=s['member'], op=s['op'], orders=s['orders'], role=role)
        if (s['fn'], s['member'], s['op']) not in k17: r['cxx20'] = True
        rows.append(r)
    os.makedirs(os.path.dirname(TABLE), exist_ok=True)
    with open(TABLE, 'w') as fh:
        json.dump(dict(_doc='frozen role table of atomic sites; see usa/rules/atomics.py', sites=rows), fh, indent=0)
    print(len(rows), 'sites', collections.Counter(r['prop'] for r in rows))


if __name__ == '__main__':
    if '--freeze' in sys.argv: freeze()
