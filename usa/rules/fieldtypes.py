"""R-FIELD-TYPE — the type of every data member of the library's classes, against a frozen table.

What a member *is* decides large parts of the protocols without a single statement changing: an
`async_manual_reset_event evt_` written unqualified inside `unifex::v2` is the (unstoppable) v1 event only as long as
name lookup finds that one; an RAII subscription wrapper deregisters in its destructor, the raw adapter of the same
interface does not; `std::atomic<T>` vs `T`; `manual_lifetime<T>` vs `T`; `UNIFEX_NO_UNIQUE_ADDRESS`-less copies.
tables/field_types.json freezes the resolved type of each non-static data member (as clang prints it after name
lookup, template parameters as written) per (file, class, member) and configuration.

Violation: a member that still exists has a different resolved type.  New members, removed members, renamed classes
are silent; the table must be re-frozen (after review) when a member's type is changed deliberately.
"""
import collections, json, os, re, sys

from ..core import rule, Broken, VERIF
from .polarity import norm_fn, file_props

TABLE = os.path.join(VERIF, 'tables', 'field_types.json')


def _norm_t(t):
    return re.sub(r'\s+', ' ', (t or '').strip())


def fields(F):
    out = {}
    for r in F.recs:
        for fl in r['fields']:
            if fl.get('static'): continue
            out[(r['file'], r['qname'], fl['name'])] = (_norm_t(fl.get('type')), fl.get('line') or r['line'])
    return out


def _check(run, F, prop, fp):
    with open(TABLE) as fh: rows = [r for r in json.load(fh)['rows'] if prop in fp.get(r['file'], ())]
    if not rows: raise Broken('no member rows for ' + prop)
    cur = fields(F)
    for r in rows:
        want = r['types'].get(F.config) or r['types'].get('*')
        if want is None: continue
        k = (r['file'], r['cls'], r['member'])
        if k not in cur: continue
        have, line = cur[k]
        run.inst('%s:%s %s::%s' % (r['file'], line, r['cls'], r['member']), want[:80], key=k)
        if have != want:
            run.violation(r['cls'], 'field-type:' + r['member'], '%s:%s' % (r['file'], line),
                          'member %s of %s now has type `%s`; the frozen table has `%s`: a different class is selected (by name lookup, an alias or an edit), with different cancellation / lifetime / atomicity behaviour although no statement changed' % (
                              r['member'], r['cls'].replace('unifex::', ''), have[:120], want[:120]))


def _mk(prop, floor, fp):
    rid = 'R-FIELD-TYPE-' + prop
    @rule(rid, [prop], floor=floor)
    def r(run, F, prop=prop): _check(run, F, prop, fp)
    r.__doc__ = 'every non-static data member of the classes in the files anchored by %s still has the resolved type frozen in tables/field_types.json (after name lookup): no member silently became a different class - the cancellable v2 event for the v1 event, a raw adapter for its RAII wrapper, a plain value for an atomic or a manually managed slot (new, removed or renamed members are silent)' % prop
    from .. import core
    core.RULES[rid]['doc'] = r.__doc__


try:
    _fp = file_props()
    with open(TABLE) as _fh: _rows = json.load(_fh)['rows']
    _cnt = collections.defaultdict(collections.Counter)
    for _r in _rows:
        for _p in _fp.get(_r['file'], ()):
            for _c in ('d20', 'd17', 'r17', 'r20', 'v20'):
                if (_r['types'].get(_c) or _r['types'].get('*')) is not None: _cnt[_p][_c] += 1
    for _p, _cc in sorted(_cnt.items()): _mk(_p, min(_cc.get(_c, 0) for _c in ('d20', 'd17', 'r17', 'r20', 'v20')) // 2, _fp)
except FileNotFoundError:
    pass


def freeze():
    from .. import extract
    from ..facts import Facts
    cfgs = ['d20', 'd17', 'r17', 'r20', 'v20']
    files, _ = extract.extract(cfgs)
    per = {c: fields(Facts(files[c], c)) for c in cfgs}
    rows = []
    for k in sorted(set(k for c in cfgs for k in per[c])):
        ts = {c: per[c][k][0] for c in cfgs if k in per[c]}
        vals = list(ts.values())
        if len(ts) == len(cfgs) and all(v == vals[0] for v in vals): ts = {'*': vals[0]}
        rows.append(dict(file=k[0], cls=k[1], member=k[2], types=ts))
    with open(TABLE, 'w') as fh: json.dump(dict(_doc='frozen resolved member types; see usa/rules/fieldtypes.py', rows=rows), fh, indent=0)
    print(len(rows), 'members')


if __name__ == '__main__':
    if '--freeze' in sys.argv: freeze()
