"""R-POLARITY — which side of every branch carries which effect (all properties, by anchored file).

For every two-way branch of every function in the files a property is anchored in, the *canonical atom*
of its condition is computed (leading `!` stripped, `!=` read as negated `==`, `>=` as negated `<`, `>` as
negated `<=`, operands of symmetric/mirrored comparisons ordered), and for each side the set of *effects*
reachable from that side only: calls (by callee name), member assignments (with the constant assigned),
constant returns, completions (by channel), throws.  tables/polarity.json freezes, per (function, atom), the
effects exclusive to the side where the atom is true and to the side where it is false.

Violation: an effect frozen as exclusive to one polarity of an atom is now exclusive to the *other* polarity
of the same atom in the same function - the condition was inverted (`if (x)` for `if (!x)`, `==` for `!=`,
then/else swapped, a negation dropped from `return !exchange(true)`).  Everything else is silent by design:
effects that moved before the branch, were added, removed or renamed, conditions whose text changed (no key
match).  The rule therefore never fires on a restructuring that keeps each effect on the same side of the
same test; it is an inversion detector, not a frozen control-flow graph.  If fewer than 60% of a property's
frozen keys are found the rule is analysis-broken (the table no longer describes the tree).
"""
import collections, json, os, re, sys

from ..core import rule, Broken, VERIF
from ..facts import Graph, events, last_field, TERMQ

TABLE = os.path.join(VERIF, 'tables', 'polarity.json')
EXTRA_FILES = {
    'include/unifex/detail/intrusive_list.hpp': ['C06', 'C07'], 'include/unifex/detail/intrusive_stack.hpp': ['C06'],
    'include/unifex/v1/debug_async_scope.hpp': ['C08'], 'include/unifex/v2/debug_async_scope.hpp': ['C08'],
    'include/unifex/then_execute.hpp': ['C05'], 'include/unifex/sender_for.hpp': ['C12'], 'include/unifex/scope_guard.hpp': ['C02'],
    'source/exception.cpp': ['C05'],
    # C06's statement names these contexts (FIFO order, no lost item) although its anchor list omits their files
    'include/unifex/timed_single_thread_context.hpp': ['C06'], 'source/timed_single_thread_context.cpp': ['C06'],
    'include/unifex/thread_unsafe_event_loop.hpp': ['C06'], 'source/thread_unsafe_event_loop.cpp': ['C06'],
    # files that manipulate async stack frames (C20's bookkeeping clause) but are missing from its anchor list
    'include/unifex/stop_if_requested.hpp': ['C20'], 'include/unifex/at_coroutine_exit.hpp': ['C20'], 'include/unifex/unhandled_done.hpp': ['C20'],
    'include/unifex/with_scheduler_affinity.hpp': ['C20', 'C10'], 'include/unifex/sender_concepts.hpp': ['C20'],
    # implementation dependencies that a property's anchor list leaves out: every co_await in a task<> goes through
    # with_scheduler_affinity -> finally -> unstoppable; futures and scopes own an inplace_stop_source and a v1 event;
    # stop_on_request registers one callback per fused token
    'include/unifex/finally.hpp': ['C10', 'C11'], 'include/unifex/unstoppable.hpp': ['C10'],
    'include/unifex/inplace_stop_token.hpp': ['C09', 'C10', 'C08'], 'source/inplace_stop_token.cpp': ['C09', 'C08'],
    'include/unifex/v1/async_manual_reset_event.hpp': ['C08', 'C09'], 'source/async_manual_reset_event_v1.cpp': ['C08', 'C09'],
    'include/unifex/stop_on_request.hpp': ['C03'],
    # the debug build wraps every receiver in _inject::_rcvr_wrapper; async_pass / v2 mutex / create_basic_sender complete
    # through completion_forwarder
    'include/unifex/tracing/inject_async_stack.hpp': ['C01', 'C05', 'C13', 'C17'],
    'include/unifex/detail/completion_forwarder.hpp': ['C19', 'C15', 'C16', 'C11'],
}
TRIVIAL = {'move', 'forward', 'addressof', 'get', 'as_const', 'declval', 'operator*', 'operator->', 'static_cast', 'size', 'begin', 'end',
           'operator()', 'operator bool', 'get_stop_token', 'get_scheduler', 'get_allocator'}
NEG = {'!=': '==', '>=': '<', '>': '<='}
MIRROR = {'<': '>', '>': '<', '<=': '>=', '>=': '<=', '==': '==', '!=': '!='}


def file_props():
    m = collections.defaultdict(set)
    with open(os.path.join(VERIF, 'properties.jsonl')) as fh:
        for l in fh:
            p = json.loads(l)
            for f in p['anchors']['files']: m[f].add(p['id'])
    for f, ps in EXTRA_FILES.items(): m[f].update(ps)
    return m


def norm_fn(q):
    q = re.sub(r'inplace_stop_callback_base_d', 'inplace_stop_callback_base', q)
    for _ in range(3): q = re.sub(r'<[^<>]*>', '', q)
    q = re.sub(r'\(anonymous class\)::operator\(\)(\([^)]*\))?', '(lambda)', q)
    return q


def _envp(p, env):
    """rename the head of an access path: parameters -> $pN, locals -> $(initialiser) / $local<type>"""
    if p and '<lambda@' in p: p = re.sub(r'<lambda@\d+>', '<lambda>', p)      # line numbers are not part of an atom
    if not env or not p: return p
    h = p.split('.')
    if h[0] in env: return '.'.join([env[h[0]]] + h[1:])
    m = re.match(r'^(\w+)\(\)$', h[0])
    return p


def _s(x, env=None):
    """canonical string of an expression tree"""
    if not isinstance(x, dict): return '?'
    op = x.get('op')
    if op == 'call' and env and x.get('eid') in (env.get('$xchg') or {}): return _envp(env['$xchg'][x['eid']], env)
    if op in ('path', 'call'): return _envp(x.get('p') or '?', env)
    if op == 'un': return '%s(%s)' % (x.get('o'), _s(x.get('e'), env))
    if op == 'bin':
        o = x.get('o')
        if o in ('==', '!='):
            # x == nullptr / 0 / false is !x ; x != nullptr is x  (also inside && / || operands)
            for a, b in ((x.get('l'), x.get('r')), (x.get('r'), x.get('l'))):
                if isinstance(b, dict) and b.get('op') == 'path' and b.get('p') in ('#null', '#0', '#false') and isinstance(a, dict):
                    inner = _s(a, env)
                    return inner if o == '!=' else '!(%s)' % inner
        l, r = _s(x.get('l'), env), _s(x.get('r'), env)
        if o in ('==', '!=', '&&', '||', '&', '|', '+', '*') and r < l: l, r = r, l
        return '(%s %s %s)' % (l, o, r)
    if op == 'cond': return '(%s ? %s : %s)' % (_s(x.get('c'), env), _s(x.get('t'), env), _s(x.get('f'), env))
    return json.dumps(x, sort_keys=True)[:80]


def atom_env(f):
    """names that a behaviour-preserving edit may change freely: parameters become $p<index>, locals become
    $(<their initialiser>) (or $local<type>), so renaming a local or a parameter does not change any atom"""
    env = {}
    for i, p in enumerate(f.get('params', [])):
        if p.get('name'): env[p['name']] = '$p%d' % i
    # std::exchange(x, v) yields the old x: in a test it reads as x
    xchg = {}
    for b in f.get('blocks', []):
        for e in b['elems']:
            if e.get('k') == 'call' and (e['callee'].get('name') or '').split('::')[-1] == 'exchange' and not e['callee'].get('base') and e.get('args') \
                    and isinstance(e['args'][0], dict) and e['args'][0].get('op') == 'path':
                xchg[e.get('eid')] = e['args'][0]['p']
    env['$xchg'] = xchg
    reassigned = set()
    for b in f.get('blocks', []):
        for e in b['elems']:
            if e.get('k') in ('assign', 'incdec') and e.get('lhs') and '.' not in e['lhs']: reassigned.add(e['lhs'])
    for b in f.get('blocks', []):
        for e in b['elems']:
            if e.get('k') != 'decl': continue
            for v in e['vars']:
                if v['var'] in env: continue
                if v['var'] in reassigned:
                    env[v['var']] = '$var<%s>' % re.sub(r'\s+', '', (v.get('type') or '?'))[:40]      # a local that changes: its initialiser says nothing
                    continue
                init = v.get('init')
                if isinstance(init, dict) and init.get('op') == 'path' and not (init.get('p') or '').startswith(('#', '<')):
                    env[v['var']] = _envp(init['p'], env)           # a plain copy of x reads as x
                elif isinstance(init, dict) and init.get('op') == 'call' and init.get('eid') in xchg:
                    env[v['var']] = xchg[init['eid']]
                elif isinstance(init, dict):
                    t = _s(init, env)
                    env[v['var']] = '$(%s)' % t[:80]
                else:
                    env[v['var']] = '$local<%s>' % re.sub(r'\s+', '', (v.get('type') or '?'))[:40]
    return env


def canon(c, env=None):
    """-> (atom string, positive?)  positive=False when the condition is the negation of the atom"""
    pos = True
    while isinstance(c, dict) and c.get('op') == 'un' and c.get('o') == '!':
        c = c.get('e'); pos = not pos
    if isinstance(c, dict) and c.get('op') == 'bin' and c.get('o') in ('==', '!='):
        # x == nullptr / x == 0 / x == false  is  !x
        for a, b in ((c.get('l'), c.get('r')), (c.get('r'), c.get('l'))):
            if isinstance(b, dict) and b.get('op') == 'path' and b.get('p') in ('#null', '#0', '#false') and isinstance(a, dict):
                at, ap = canon(a, env)
                return at, (ap if c['o'] == '!=' else (not ap)) == pos
    if isinstance(c, dict) and c.get('op') == 'bin' and c.get('o') in ('==', '!=', '<', '<=', '>', '>='):
        o = c['o']; l, r = c.get('l'), c.get('r')
        ls, rs = _s(l, env), _s(r, env)
        if o in ('<', '<=', '>', '>=') and rs < ls:
            ls, rs = rs, ls; o = MIRROR[o]
        if o in ('==', '!=') and rs < ls: ls, rs = rs, ls
        if o in NEG: o = NEG[o]; pos = not pos
        return '(%s %s %s)' % (ls, o, rs), pos
    return _s(c, env), pos


def effect(e):
    k = e.get('k')
    if k == 'call':
        if (e.get('macro') or '').startswith(('UNIFEX_ASSERT', 'assert')): return None
        q = e['callee'].get('qname')
        if q in TERMQ: return 'complete:' + TERMQ[q]
        nm = (e['callee'].get('name') or '').split('::')[-1]
        if not nm or nm in TRIVIAL or nm.startswith(('<', 'operator')): return None      # operators (comparisons, conversions) are not effects
        return 'call:' + nm
    if k == 'assign':
        lhs = e.get('lhs') or ''
        lf = last_field(lhs)
        if not lf: return None
        if '.' not in lhs and not lf.endswith('_'): return None          # assignment to a local: its name is free
        rhs = e.get('rhs') or {}
        v = rhs.get('p') if rhs.get('op') == 'path' and (rhs.get('p') or '').startswith('#') else None
        return 'set:%s%s' % (lf, '=' + v if v else '')
    if k == 'incdec':
        lhs = e.get('lhs') or ''
        if '.' not in lhs and not lhs.endswith('_'): return None
        return 'incdec:' + last_field(lhs)
    if k == 'ret':
        v = e.get('v') or {}
        if v.get('op') == 'path' and (v.get('p') or '').startswith('#'): return 'ret:' + v['p']
        return 'ret' if not e.get('v') else None
    if k == 'throw': return 'throw'
    if k == 'delete': return 'delete'
    return None


def branches(f):
    """[(atom, T-only effects, F-only effects, line)] under the canonical polarity of the atom"""
    G = Graph(f)
    out = []
    env = atom_env(f)
    for t, e in G.ev.items():
        if e.get('k') != 'term' or e.get('cond') is None: continue
        if (e.get('macro') or '').startswith(('UNIFEX_ASSERT', 'assert')): continue
        st = sf = None
        for m, lab in G.succ.get(t, []):
            if lab is True: st = m
            elif lab is False: sf = m
        if st is None or sf is None: continue
        atom, pos = canon(e['cond'], env)
        if atom in ('#true', '#false', '?') or len(atom) > 300: continue
        rt = G.reach(st, blocked={t}); rf = G.reach(sf, blocked={t})
        et = {effect(G.ev[n]) for n in rt - rf} - {None}
        ef = {effect(G.ev[n]) for n in rf - rt} - {None}
        # effects also reachable from the other side (through a different node) are not exclusive
        ct = {effect(G.ev[n]) for n in rt} ; cf = {effect(G.ev[n]) for n in rf}
        et, ef = et - cf, ef - ct
        ct, cf = ct - {None}, cf - {None}
        if not pos: et, ef, ct, cf = ef, et, cf, ct
        if et or ef: out.append((atom, et, ef, e.get('line') or G.line(t), ct, cf))
    return out


def all_atoms(F):
    """{(file, fn): set of canonical atoms of every branch condition (with or without distinguishable effects)}"""
    out = collections.defaultdict(set)
    for f in F.funcs:
        if not f.get('blocks'): continue
        env = atom_env(f)
        fn = norm_fn(f['qname'])
        for b in f['blocks']:
            t = b.get('term')
            if not t or t.get('cond') is None: continue
            if (t.get('macro') or '').startswith(('UNIFEX_ASSERT', 'assert')): continue
            a, _ = canon(t['cond'], env)
            if a in ('#true', '#false', '?') or len(a) > 300: continue
            out[(f['file'], fn)].add(a)
    return out


def _shape(a):
    """atom with relational operators and literal constants abstracted"""
    a = re.sub(r' (<=|>=|<|>|==|!=) ', ' REL ', a)
    return re.sub(r'#-?\w+', '#K', a)


ALL_SIDES = {}      # (config, file, fn, atom) -> (all effects reachable when the atom is true, ... when false); filled by table_of


def table_of(F):
    """{(file, fn, atom): (T, F, line)} with duplicates merged and conflicting effects dropped"""
    out = {}
    for f in F.funcs:
        if not f.get('blocks'): continue
        fn = norm_fn(f['qname'])
        for atom, et, ef, line, ct, cf in branches(f):
            k = (f['file'], fn, atom)
            if k in out:
                pt, pf, pl = out[k]
                t2, f2 = pt | et, pf | ef
                both = t2 & f2
                out[k] = (t2 - both, f2 - both, pl)
                ALL_SIDES[(F.config,) + k] = None          # the same test occurs more than once in this function: sides are not comparable
            else:
                out[k] = (set(et), set(ef), line)
                ALL_SIDES[(F.config,) + k] = (set(ct), set(cf))
    return out


def _check(run, F, prop, fp):
    with open(TABLE) as fh: rows = json.load(fh)['rows']
    mine = [r for r in rows if prop in fp.get(r['file'], ())]
    if not mine: raise Broken('no polarity rows for ' + prop)
    cur = table_of(F)
    found = 0; applicable = 0
    for r in mine:
        if r.get('configs') and F.config not in r['configs']: continue
        applicable += 1
        k = (r['file'], r['fn'], r['atom'])
        if k not in cur: continue
        found += 1
        ct, cf, line = cur[k]
        run.inst('%s:%s %s' % (r['file'], line, r['fn']), 'if %s: %s / else: %s' % (r['atom'][:80], r['T'][:4], r['F'][:4]), key=(r['fn'], r['atom']))
        swapped_t = sorted(x for x in r['T'] if x in cf and x not in ct)
        swapped_f = sorted(x for x in r['F'] if x in ct and x not in cf)
        # an effect that used to be exclusive to one outcome and is now reached on the other outcome as well (a dropped
        # `return` / `break` / `else` lets control fall through)
        at, af = ALL_SIDES.get((F.config,) + k) or (set(), set())
        leak_t = sorted(x for x in r['T'] if x in af and x in at and x not in swapped_t and not x.startswith('ret'))
        leak_f = sorted(x for x in r['F'] if x in at and x in af and x not in swapped_f and not x.startswith('ret'))
        if (leak_t or leak_f) and not (swapped_t or swapped_f):
            run.violation(r['fn'], 'fallthrough:' + r['atom'][:100], '%s:%s' % (r['file'], line),
                          'in %s, %s%s%s: an effect that happened on one outcome of the test `%s` only is now reached on both - a `return` / `break` / `else` separating the two outcomes was dropped' % (
                              r['fn'].split('::')[-1],
                              ('%s used to happen only when the test is true and now also happens when it is false' % leak_t) if leak_t else '',
                              '; ' if leak_t and leak_f else '',
                              ('%s used to happen only when the test is false and now also happens when it is true' % leak_f) if leak_f else '',
                              r['atom'][:120]))
        if swapped_t or swapped_f:
            run.violation(r['fn'], 'inverted:' + r['atom'][:100], '%s:%s' % (r['file'], line),
                          'the test `%s` in %s is inverted: %s%s%s - each effect now happens on the opposite outcome of the same test as in the frozen protocol table' % (
                              r['atom'][:120], r['fn'].split('::')[-1],
                              ('%s used to happen only when it is true and now happens only when it is false' % swapped_t) if swapped_t else '',
                              '; ' if swapped_t and swapped_f else '',
                              ('%s used to happen only when it is false and now happens only when it is true' % swapped_f) if swapped_f else ''))
    # a frozen test that vanished from its function while a *new* test with the same one-sided effects appeared there:
    # the condition was replaced (other predicate, other constant, other comparison)
    by_fn = collections.defaultdict(list)
    for r in mine:
        if r.get('configs') and F.config not in r['configs']: continue
        by_fn[(r['file'], r['fn'])].append(r)
    cur_by_fn = collections.defaultdict(dict)
    for (file, fn, atom), v in cur.items(): cur_by_fn[(file, fn)][atom] = v
    for k, rs in by_fn.items():
        have = cur_by_fn.get(k)
        if not have: continue
        frozen_atoms = {r['atom'] for r in rs}
        new_atoms = {a: v for a, v in have.items() if a not in frozen_atoms}
        if not new_atoms: continue
        for r in rs:
            if r['atom'] in have: continue
            T, Fs = set(r['T']), set(r['F'])
            if len(T) + len(Fs) < 1: continue
            for a, (ct, cf, line) in sorted(new_atoms.items()):
                same = (T == ct and Fs == cf)
                flipped = (T == cf and Fs == ct)
                if (same or flipped) and (T or Fs):
                    run.violation(r['fn'], 'replaced:' + r['atom'][:100], '%s:%s' % (r['file'], line),
                                  'the test `%s` in %s was replaced by `%s`, which now decides exactly the same effects (%s / %s): a different predicate, constant or comparison guards this step of the protocol' % (
                                      r['atom'][:120], r['fn'].split('::')[-1], a[:120], sorted(T)[:4], sorted(Fs)[:4]))
                    break
    # a comparison whose operands are unchanged but whose relational operator or literal changed (`<=` -> `<`, `== 1` -> `== 0`)
    with open(TABLE) as fh: arows = json.load(fh).get('atoms', [])
    cur_atoms = None
    for ar in arows:
        if prop not in fp.get(ar['file'], ()) or (ar.get('configs') and F.config not in ar['configs']): continue
        if cur_atoms is None: cur_atoms = all_atoms(F)
        have = cur_atoms.get((ar['file'], ar['fn']))
        if have is None: continue
        frozen = set(ar['atoms'])
        gone = frozen - have; new = have - frozen
        if not gone or not new: continue
        run.inst('%s %s' % (ar['file'], ar['fn']), 'comparisons keep their operator and constant', key=(ar['fn'], 'cmp'))
        for a in sorted(gone):
            for b in sorted(new):
                if a != b and _shape(a) == _shape(b) and ' REL ' in _shape(a) or (a != b and _shape(a) == _shape(b) and '#K' in _shape(a)):
                    run.violation(ar['fn'], 'comparison-changed:' + a[:100], '%s:1' % ar['file'],
                                  'in %s the test `%s` became `%s`: same operands, different relational operator or constant (a boundary, tie-break or expected value of the protocol changed)' % (ar['fn'].split('::')[-1], a[:140], b[:140]))
                    break
    if applicable and found < 0.6 * applicable:
        run.broke('only %d of %d frozen branch keys of %s exist in the tree: tables/polarity.json no longer describes it (re-freeze after review)' % (found, applicable, prop))


def _mk(prop, floor, fp):
    rid = 'R-POLARITY-' + prop
    @rule(rid, [prop], floor=floor)
    def r(run, F, prop=prop): _check(run, F, prop, fp)
    r.__doc__ = 'for every two-way branch in the files anchored by %s whose sides have distinguishable effects (calls, member writes, constant returns, completions, throws), each effect happens on the same outcome of the same canonical test as frozen in tables/polarity.json: no condition is inverted, no ==/!= or then/else swapped, no negation dropped, no test is replaced by a different test deciding exactly the same effects, and no comparison keeps its operands while changing its relational operator or literal (`<=` to `<`, `== 1` to `== 0`) (locals and parameters are renamed canonically, x==nullptr/0/false reads as !x; moved, added, removed or renamed effects are silent)' % prop
    from .. import core
    core.RULES[rid]['doc'] = r.__doc__


try:
    _fp = file_props()
    with open(TABLE) as _fh: _rows = json.load(_fh)['rows']
    _cnt = collections.defaultdict(collections.Counter)
    for _r in _rows:
        for _p in _fp.get(_r['file'], ()):
            for _c in _r.get('configs', []): _cnt[_p][_c] += 1
    # the floor applies per configuration: C++20-only / debug-only code is absent from some of them
    for _p, _cc in sorted(_cnt.items()): _mk(_p, min(_cc.get(_c, 0) for _c in ('d20', 'd17', 'r17', 'r20', 'v20')) // 4, _fp)
except FileNotFoundError:
    pass


def freeze():
    from .. import extract
    from ..facts import Facts
    cfgs = ['d20', 'd17', 'r17', 'r20', 'v20']
    files, _ = extract.extract(cfgs)
    merged = {}
    for c in cfgs:
        for k, (t, f, line) in table_of(Facts(files[c], c)).items():
            if k in merged:
                m = merged[k]
                t2, f2 = m['T'] | t, m['F'] | f
                both = t2 & f2
                m['T'], m['F'] = t2 - both, f2 - both
                m['configs'].append(c)
            else:
                merged[k] = dict(T=set(t), F=set(f), configs=[c])
    rows = []
    for (file, fn, atom), m in sorted(merged.items()):
        if not m['T'] and not m['F']: continue
        rows.append(dict(file=file, fn=fn, atom=atom, T=sorted(m['T']), F=sorted(m['F']), configs=m['configs']))
    am = {}
    for c in cfgs:
        for k, atoms in all_atoms(Facts(files[c], c)).items():
            m = am.setdefault(k, dict(atoms=set(), configs=[]))
            m['atoms'] |= atoms; m['configs'].append(c)
    arows = [dict(file=k[0], fn=k[1], atoms=sorted(m['atoms']), configs=m['configs']) for k, m in sorted(am.items()) if m['atoms']]
    with open(TABLE, 'w') as fh:
        json.dump(dict(_doc='frozen branch polarity table; see usa/rules/polarity.py', rows=rows, atoms=arows), fh, indent=0)
    fp = file_props()
    print(len(rows), 'rows;', 'unowned files:', sorted({r['file'] for r in rows if not fp.get(r['file'])}))


if __name__ == '__main__':
    if '--freeze' in sys.argv: freeze()
