"""R-DROPPED — a function does not lose a protocol step without anything taking its place.

R-VERBS and R-FLOWS are deliberately coarse (presence per algorithm namespace) so that helper extraction and merged
duplicates stay silent; a deletion of one of several sites is invisible to them.  This rule closes that gap with
per-function facts and an explicit test for "moved, not deleted":

tables/function_facts.json freezes, for every function of the anchored files that has any, its set of *actions*
(verb applied to a member/object, see R-VERBS), its member-to-member *flow edges* (see R-FLOWS) and the set of
callee names it mentions.  On the current tree, for a function that still exists under the same qualified name:

    lost  = frozen actions/edges that no longer occur in the function
    new   = callee names the function mentions now and did not mention before

Violation iff lost is non-empty and new is empty: a step (a destruct, a notify, a back-pointer fix-up, a stop request,
a decrement, a hand-over assignment) was deleted and no new call appeared that could have taken it over.  When the
function gained a call (a new helper, a different API) the rule is silent: the step may have moved.  Functions that
disappeared (renamed, merged, inlined away) are silent as well.
"""
import collections, json, os, re, sys

from ..core import rule, Broken, VERIF
from ..facts import events, last_field, TERMQ
from .polarity import norm_fn, file_props
from .verbs import NOT_ACTIONS
from .flows import edges_of

TABLE = os.path.join(VERIF, 'tables', 'function_facts.json')
LOCAL = re.compile(r'[a-z]\w{0,2}|op|self|this|it|item|next|prev|cur|tmp|ptr|other|rhs')


def fn_facts(f):
    acts, callees = set(), set()
    for b, i, e in events(f):
        if e['k'] == 'call':
            if (e.get('macro') or '').startswith(('UNIFEX_ASSERT', 'assert')): continue
            q = e['callee'].get('qname') or ''
            nm = (e['callee'].get('name') or '').split('::')[-1]
            if q in TERMQ: nm = 'set_' + TERMQ[q]
            if not nm or nm.startswith('<'): continue
            callees.add(nm)
            if nm in NOT_ACTIONS or nm.startswith(('is_', 'get_', 'operator')) or nm.endswith(('_v', '_t')) or not re.fullmatch(r'[A-Za-z_~]\w*', nm): continue
            base = e['callee'].get('base')
            obj = last_field(base) if base else ''
            if not obj and nm in ('set_value', 'set_error', 'set_done', 'set_next', 'start') and e.get('args') and isinstance(e['args'][0], dict):
                obj = last_field((e['args'][0].get('p') or '').replace('()', '')) or ''
            if obj.endswith('()'): obj = obj[:-2]
            if not obj.endswith('_') or LOCAL.fullmatch(obj or ''): obj = '*'          # a local / parameter: its name is free
            acts.add('%s.%s' % (obj, nm))
        elif e['k'] == 'delete':
            acts.add('delete'); callees.add('delete')
        elif e['k'] == 'throw':
            acts.add('throw'); callees.add('throw')
        elif e['k'] in ('construct', 'initlist'):
            t = re.match(r'(?:typename\s+)?(?:std::|unifex::)?([A-Za-z_]\w*)', e.get('type') or '')
            if t: callees.add('new ' + t.group(1))
            if 'scope_guard' in (e.get('type') or ''): acts.add('scope_guard')          # an RAII clean-up step (runs on every exit, exceptional ones included)
        elif e['k'] == 'decl':
            for v in e['vars']:
                if 'scope_guard' in ((v.get('type') or '') + (v.get('wtype') or '')): acts.add('scope_guard')
    return acts, edges_of(f), callees


def facts_of(F):
    out = {}
    for f in F.funcs:
        if not f.get('blocks') or f.get('lambda'): continue
        acts, edges, callees = fn_facts(f)
        # lambdas written inside the function belong to it
        for g in F.lambdas_of(f):
            a2, e2, c2 = fn_facts(g)
            acts |= a2; edges |= e2; callees |= c2
        if not acts and not edges: continue
        k = (f['file'], norm_fn(f['qname']), len(f.get('params', [])))
        if k in out:
            o = out[k]; o[0].update(acts); o[1].update(edges); o[2].update(callees)
        else:
            out[k] = [set(acts), set(edges), set(callees)]
    return out


def _check(run, F, prop, fp):
    with open(TABLE) as fh: rows = [r for r in json.load(fh)['rows'] if prop in fp.get(r['file'], ())]
    if not rows: raise Broken('no function rows for ' + prop)
    cur = facts_of(F)
    found = 0; applicable = 0
    for r in rows:
        want = r['facts'].get(F.config) or r['facts'].get('*')
        if want is None: continue
        applicable += 1
        k = (r['file'], r['fn'], r['nparams'])
        if k not in cur: continue
        found += 1
        acts, edges, callees = cur[k]
        run.inst('%s %s' % (r['file'], r['fn']), '%d actions, %d flow edges' % (len(want['actions']), len(want['edges'])), key=k)
        lost_a = sorted(set(want['actions']) - acts)
        lost_e = sorted(set(want['edges']) - edges)
        if not lost_a and not lost_e: continue
        new = callees - set(want['callees'])
        # a lost `obj.verb` that survives as `*.verb` / other object of the same verb was only re-targeted to a local: not a deletion
        verbs_now = {a.split('.', 1)[1] for a in acts if '.' in a} | {a for a in acts if '.' not in a}
        lost_a = [a for a in lost_a if (a.split('.', 1)[1] if '.' in a else a) not in verbs_now]
        lhs_now = {e.split(' <- ')[0] + ' <- ' + e.split(' <- ')[1] for e in edges}
        if (lost_a or lost_e) and not new:
            what = ', '.join(['`%s`' % a for a in lost_a[:3]] + ['`%s`' % e for e in lost_e[:3]])
            run.violation(r['fn'], 'dropped:' + (lost_a + lost_e)[0], '%s:1' % r['file'],
                          '%s no longer performs %s, and it calls nothing new that could have taken the step over: a step of the protocol (a destruct, notify, stop request, decrement, link / back-pointer update, hand-over assignment) was deleted' % (
                              r['fn'].replace('unifex::', ''), what))
    if applicable and found < 0.6 * applicable:
        run.broke('only %d of %d frozen functions of %s exist in the tree: tables/function_facts.json no longer describes it' % (found, applicable, prop))


def _mk(prop, floor, fp):
    rid = 'R-DROPPED-' + prop
    @rule(rid, [prop], floor=floor)
    def r(run, F, prop=prop): _check(run, F, prop, fp)
    r.__doc__ = 'no function in the files anchored by %s has lost one of its protocol actions (verb applied to a member: destruct, notify, request_stop, reset, release, decrement, completion ...) or member-to-member flow edges (links, back pointers, hand-over assignments) frozen in tables/function_facts.json *without gaining any new callee*: a step was not simply deleted (a function that gained a call - helper extraction, different API - and functions that disappeared are silent)' % prop
    from .. import core
    core.RULES[rid]['doc'] = r.__doc__


try:
    _fp = file_props()
    with open(TABLE) as _fh: _rows = json.load(_fh)['rows']
    _cnt = collections.defaultdict(collections.Counter)
    for _r in _rows:
        for _p in _fp.get(_r['file'], ()):
            for _c in ('d20', 'd17', 'r17', 'r20', 'v20'):
                if (_r['facts'].get(_c) or _r['facts'].get('*')) is not None: _cnt[_p][_c] += 1
    for _p, _cc in sorted(_cnt.items()): _mk(_p, min(_cc.get(_c, 0) for _c in ('d20', 'd17', 'r17', 'r20', 'v20')) // 3, _fp)
except FileNotFoundError:
    pass


def freeze():
    from .. import extract
    from ..facts import Facts
    cfgs = ['d20', 'd17', 'r17', 'r20', 'v20']
    files, _ = extract.extract(cfgs)
    per = {c: facts_of(Facts(files[c], c)) for c in cfgs}
    rows = []
    for k in sorted(set(k for c in cfgs for k in per[c])):
        fx = {c: dict(actions=sorted(per[c][k][0]), edges=sorted(per[c][k][1]), callees=sorted(per[c][k][2])) for c in cfgs if k in per[c]}
        vals = list(fx.values())
        if len(fx) == len(cfgs) and all(v == vals[0] for v in vals): fx = {'*': vals[0]}
        rows.append(dict(file=k[0], fn=k[1], nparams=k[2], facts=fx))
    with open(TABLE, 'w') as fh: json.dump(dict(_doc='frozen per-function actions / flow edges / callees; see usa/rules/dropped.py', rows=rows), fh, indent=0)
    print(len(rows), 'functions')


if __name__ == '__main__':
    if '--freeze' in sys.argv: freeze()
