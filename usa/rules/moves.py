"""R-MOVE — no use of a local object after it has been moved from (C03/C12 adapters, generic)."""
import re

from ..core import rule, site, Broken
from ..facts import Graph, events

TRIVIAL = re.compile(r'\*$|^(const )?(int|bool|char|long|unsigned|std::size_t|size_t|std::uintptr_t|uintptr_t|std::uint\d+_t|uint\d+_t|float|double)\b')
# locals whose moved-from state is specified and deliberately used, one row per (function, variable)
MOVE_EXEMPT = {}


def occurrences(e):
    """[(path, moved?)] for every leaf path in the event's expressions"""
    out = []
    def walk(x):
        if isinstance(x, dict):
            if x.get('op') in ('path', 'call') and 'p' in x: out.append((x['p'], bool(x.get('mv'))))
            for k in ('l', 'r', 'e', 'c', 't', 'f'):
                if k in x: walk(x[k])
        elif isinstance(x, list):
            for y in x: walk(y)
    for k in ('args', 'rhs', 'v', 'cond'):
        if k in e: walk(e[k])
    if e.get('k') == 'decl':
        for v in e['vars']: walk(v.get('init'))
    if e.get('k') == 'call':
        b = e['callee'].get('base')
        if b: out.append((b, False))
    return out


@rule('R-MOVE', ['C03', 'C12', 'C18', 'C02', 'C04'], floor=40)
def use_after_move(run, F):
    """a local variable or by-value parameter of class type that has been passed through std::move to a call or constructor is not read again on any later path unless it is re-assigned first: its moved-from state is unspecified for general stop-token/sender/receiver types (e.g. stop_possible() of a moved-from reference-counted token is false), so decisions taken on it silently disable cancellation or drop data"""
    n = 0
    for f in F.funcs:
        if not f.get('blocks'): continue
        moved_sites = []
        types = {p['name']: p['type'] for p in f.get('params', [])}
        for b, i, e in events(f):
            if e['k'] == 'decl':
                for v in e['vars']: types[v['var']] = v.get('type', '')
        for b, i, e in events(f):
            if e['k'] not in ('call', 'construct', 'initlist', 'decl', 'assign', 'init'): continue
            for p, mv in occurrences(e):
                if mv and '.' not in p and not p.startswith(('#', '<', 'this')) and p in types:
                    t = types[p]
                    if TRIVIAL.search(t) or t.endswith('&') and not t.endswith('&&'): continue
                    moved_sites.append(((b['id'], i), p, e))
        if not moved_sites: continue
        G = Graph(f)
        for node, p, e in moved_sites:
            n += 1
            run.inst(site(f, e.get('line')), '`%s` not used after std::move' % p, key=(f['qname'], p, e.get('line')))
            if (f['qname'], p) in MOVE_EXEMPT: continue
            after = G.reach([m for m, l in G.succ.get(node, []) if l != 'exc'])
            after.discard(node)
            for x in sorted(after):
                ex = G.ev[x]
                if ex.get('k') == 'assign' and ex['lhs'] == p: break
                if ex.get('k') in ('scope_end', 'autodtor', 'scope_begin'): continue
                if (ex.get('line') or 0) == (e.get('line') or -1): continue        # same full expression: the consumer of the move
                used = [q for q, mv in occurrences(ex) if q.split('.')[0] == p and not mv]
                if used:
                    run.violation(f['qname'], 'use-after-move:' + p, '%s:%s' % (f['file'], G.line(x)),
                                  '`%s` is used (%s) after it was moved from at line %s: for a general %s the moved-from object no longer carries its state' % (p, used[0], e.get('line'), types[p] or 'class type'))
                    break
    if n == 0: raise Broken('no std::move of a local found (extractor too old?)')


@rule('R-MOVE-GUARDED', ['C18', 'C02', 'C12'], floor=1)
def move_while_guard_armed(run, F):
    """a local that an armed scope_guard uses (captures) is not moved from while the guard can still run: the guard runs on the exceptional exit of the very statements that follow, so a `std::move(allocator)` into the object under construction leaves the clean-up (deallocate through that allocator) with a moved-from object"""
    from ..facts import guard_vars
    n = 0
    for f in F.funcs:
        if not f.get('blocks'): continue
        gv = guard_vars(f)
        if not gv: continue
        G = Graph(f)
        # guard variable -> (decl node, captured names)
        lam_caps = {e['line']: set(e.get('caps') or []) for _, e in G.ev.items() if e.get('k') == 'lambda'}
        # implicit captures of a dependent `[&]` lambda are not known before instantiation: use the names its body mentions
        for lf in F.lambdas_of(f):
            names = set()
            for _, _, le in events(lf):
                for pth, _mv in occurrences(le): names.add(pth.split('.')[0])
            lam_caps.setdefault(lf['line'], set()).update(names)
        guards = {}
        for node, e in G.ev.items():
            if e.get('k') == 'decl':
                for v in e['vars']:
                    if v['var'] in gv: guards[v['var']] = (node, lam_caps.get(gv[v['var']], set()))
        if not guards: continue
        for g, (dn, caps) in guards.items():
            n += 1
            run.inst(site(f, G.line(dn)), 'locals used by scope_guard `%s` (%s) are not moved from while it is armed' % (g, sorted(caps)[:4]), key=(f['qname'], g))
            rel = {x for x, e in G.ev.items() if e.get('k') == 'call' and e['callee'].get('name') in ('release', 'reset') and e['callee'].get('base') == g}
            armed = G.reach([m for m, _ in G.succ.get(dn, [])], blocked=rel)
            for x in sorted(armed):
                e = G.ev[x]
                if e.get('k') not in ('call', 'construct', 'initlist', 'decl', 'assign', 'ret'): continue
                for p, mv in occurrences(e):
                    if mv and p in caps and '.' not in p:
                        run.violation(f['qname'], 'move-under-guard:' + p, '%s:%s' % (f['file'], G.line(x)),
                                      '`%s` is moved from at line %s while scope_guard `%s` (declared at line %s), which uses it, is still armed: if a later step throws, the guard runs with a moved-from `%s`' % (p, G.line(x), g, G.line(dn), p))
                        break
                else: continue
                break
    if n == 0: raise Broken('no scope_guard with captures found')


def _occ_fw(e):
    out = []
    def walk(x):
        if isinstance(x, dict):
            if x.get('op') in ('path', 'call') and 'p' in x: out.append((x['p'], bool(x.get('fw')) or bool(x.get('mv'))))
            for k in ('l', 'r', 'e', 'c', 't', 'f'):
                if k in x: walk(x[k])
        elif isinstance(x, list):
            for y in x: walk(y)
    for k in ('args', 'rhs', 'v', 'cond'):
        if k in e: walk(e[k])
    if e.get('k') == 'decl':
        for v in e['vars']: walk(v.get('init'))
    if e.get('k') == 'call':
        b = e['callee'].get('base')
        if b: out.append((b, False))
    return out


def _encloses(outer, inner):
    return bool(outer and inner and (outer[0], outer[1]) <= (inner[0], inner[1]) and (inner[2], inner[3]) <= (outer[2], outer[3]))


@rule('R-FWD-ONCE', ['C13', 'C05', 'C02', 'C18'], floor=150)
def forward_once(run, F):
    """a forwarding-reference / rvalue-reference parameter (or pack) that has been forwarded - std::forward, std::move, (T&&)x, static_cast<T&&>(x) - into a call or constructor is not used again on any later non-exceptional path (enclosing expressions of the same full expression excepted): the first consumer may have moved the values out, so a predicate that is given the forwarded element leaves the downstream receiver a moved-from element"""
    n = 0
    for f in F.funcs:
        if not f.get('blocks'): continue
        types = {p['name']: p['type'].replace('...', '').rstrip() for p in f.get('params', []) if p['name']}
        fw = []
        for b, i, e in events(f):
            if e['k'] not in ('call', 'construct', 'initlist', 'decl', 'assign', 'init', 'ret'): continue
            for p, m in _occ_fw(e):
                if m and p in types and types[p].endswith('&&'): fw.append(((b['id'], i), p, e))
        if not fw: continue
        G = Graph(f)
        done = set()
        for node, p, e in fw:
            n += 1
            run.inst(site(f, e.get('line')), '`%s` not used after it was forwarded' % p, key=(f['qname'], p, e.get('line')))
            if p in done: continue
            after = G.reach([m for m, l in G.succ.get(node, []) if l != 'exc'], skip_exc=True)
            after.discard(node)
            for x in sorted(after):
                ex = G.ev[x]
                if ex.get('k') == 'assign' and ex.get('lhs') == p: break
                if _encloses(ex.get('rng'), e.get('rng')): continue          # the consumer expression(s) of this very forward
                if not ex.get('rng') and (ex.get('line') or 0) == (e.get('line') or -1): continue
                used = [q for q, m in _occ_fw(ex) if q.split('.')[0] == p]
                if used:
                    done.add(p)
                    run.violation(f['qname'], 'use-after-forward:' + p, '%s:%s' % (f['file'], G.line(x)),
                                  '`%s` (%s) is used again at line %s after it was forwarded at line %s: the first consumer may have moved from it, so the second one receives a moved-from object' % (p, types[p], G.line(x), e.get('line')))
                    break
    if n == 0: raise Broken('no forwarded parameter found (extractor too old?)')


MOVE_FWDREF_EXEMPT = {
    # (function, parameter): reason
    ('unifex::_unhandled_done::_done_coro::promise_type::await_transform', 'func'):
        'the lvalue overload `await_transform(Func&) = delete` is declared next to it: only rvalues can bind, so std::move equals std::forward here',
}


@rule('R-MOVE-FWDREF', ['C05', 'C02', 'C18', 'C13'], floor=100)
def move_of_forwarding_reference(run, F):
    """a forwarding-reference parameter `P&& p` (P a template parameter of the function itself) - or a member of it - is never passed through std::move: for an lvalue argument that steals the caller's object (connecting an lvalue sender twice then delivers moved-from values); the forwarding spellings std::forward<P>(p) / static_cast<P&&>(p) / (P&&)p keep an lvalue an lvalue"""
    n = 0
    for f in F.funcs:
        tps = f.get('tparams') or []
        if not tps or not f.get('blocks'): continue
        fps = {}
        for p in f.get('params', []):
            m = re.match(r'^(\w+) &&(\.\.\.)?$', p['type'])
            if m and m.group(1) in tps and p['name']: fps[p['name']] = m.group(1)
        if not fps: continue
        for pn in fps:
            n += 1
            run.inst(site(f), 'forwarding parameter `%s` is forwarded, never std::move()d' % pn, key=(f['qname'], pn))
        def walk(x, out):
            if isinstance(x, dict):
                if x.get('mv') and x.get('op') in ('path', 'call') and (x.get('p') or '').split('.')[0] in fps: out.append(x.get('p'))
                for v in x.values(): walk(v, out)
            elif isinstance(x, list):
                for v in x: walk(v, out)
        seen = set()
        for b, i, e in events(f):
            out = []; walk(e, out)
            for p in out:
                pn = p.split('.')[0]
                if (f['qname'], pn) in MOVE_FWDREF_EXEMPT or (f['qname'], pn) in seen: continue
                # std::move(x).ref_member_ where the member is an lvalue reference: the expression is an lvalue, nothing is moved
                mem = p.split('.')[-1] if '.' in p else None
                if mem and any(fl['name'] == mem and (fl.get('type') or '').rstrip().endswith('&') and not (fl.get('type') or '').rstrip().endswith('&&')
                               for r in F.recs if r['_family'] == f['_family'] for fl in r['fields']): continue
                seen.add((f['qname'], pn))
                run.violation(f['qname'], 'move-of-forwarding-ref:' + pn, '%s:%s' % (f['file'], e.get('line')),
                              '`%s` is passed through std::move although `%s` is a forwarding reference (%s&&): when the caller passes an lvalue its object is moved from (e.g. a sender connected a second time delivers moved-from values); use static_cast<%s&&>(%s)%s' % (p, pn, fps[pn], fps[pn], pn, p[len(pn):]))
    if n == 0: raise Broken('no forwarding-reference parameter found (extractor too old?)')
