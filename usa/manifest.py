"""Regenerates /verif/MANIFEST.json from the rule registry and the per-property texts below:
python3 -m usa.manifest"""
import json, os
from . import core, check

VERIF = core.VERIF

# property -> (decided clauses, declined clauses, technique)
CLAIMS = {
    'C03': dict(
        decided="inplace_stop_source/inplace_stop_callback: (1) lock discipline by lock-held dataflow on all paths — callback list linkage and "
                "notifyingThreadId_ only under the spin lock, lock released at every exit, callbacks executed with the lock released (re-entrant "
                "deregistration cannot deadlock); (2) request_stop: first-requester gate dominates every execute(), loser returns true / winner false, "
                "prevPtr_=nullptr and removedDuringCallback_ armed before execute, callbackCompleted_ published with release after execute unless removed "
                "re-entrantly, stop flag never cleared; (3) remove_callback: an already-dequeued callback is waited for (acquire load in a loop) unless "
                "on the notifying thread, which flags removedDuringCallback; (4) registration after stop executes inline exactly once with source_ cleared "
                "first, destructor deregisters iff still associated; (5) memory orders of the lock word and gate CAS.",
        declined="linearizability of N registering threads against M requesters as a property of all schedules; fused_stop_source/adapter forwarding beyond "
                 "the pairing rules shared with C04.",
        technique="lock-held dataflow + dominance/must-pass path rules + memory-order role table over clang CFGs (libTooling)"),
    'C12': dict(
        decided="(AST half) every receiver class that is connected to a child operation (>= 2 of set_value/set_error/set_done; 71 classes) has the generic "
                "query-forwarding tag_invoke(CPO, const receiver&) overload and its body invokes the CPO on the outer receiver (reached through a "
                "Receiver-typed field or a getter returning one); classes without one must be in a 20-row exemption table whose reasons are the property's own "
                "(root receivers, children that outlive the receiver, type-erased wrappers with a declared query set).",
        declined="the value returned by a forwarded query when an adaptor could substitute a different object of the same type; allocator symmetry of "
                 "allocate()/spawn (not yet armed).",
        technique="custom AST/CFG query over all receiver classes (libTooling facts) with a reasoned exemption table"),
    'C20': dict(
        decided="(a) assertion purity: no write, atomic RMW/store, protocol event or repository function with side effects is evaluated inside any UNIFEX_ASSERT/assert "
                "(they vanish under NDEBUG); (b) configuration differential: every function and lambda present in two configurations (debug vs NDEBUG, C++17 vs C++20, "
                "continuation visitation on/off) has an identical protocol projection (completions, child starts, atomics with orders, stop requests, lock/notify, state "
                "writes, branch structure) outside assertions; (c) the two arms of every `if constexpr` on a build switch (async-stack support, NDEBUG, visitation) yield "
                "the same set of protocol-event sequences to function exit; (d) async-stack balance: every ScopedAsyncStackRoot::activateFrame is balanced on all paths "
                "(RAII destructor, ensureFrameDeactivated, or coroutine resumption) and the root is pushed/popped in its constructor/destructor.",
        declined="equality of observable traces across builds as a differential execution; async_trace's reported chain; frame push/pop pairing across coroutine suspension "
                 "points (not a single-function path fact).",
        technique="cross-configuration AST/CFG differential + assertion-purity lint + path-set comparison of if-constexpr arms (libTooling facts)"),
}


def main():
    check.load_rules()
    props = [json.loads(l) for l in open(os.path.join(VERIF, 'properties.jsonl'))]
    checks, na = [], []
    for p in props:
        pid = p['id']
        rules = [r for r in core.RULES.values() if pid in r['props']]
        c = CLAIMS.get(pid)
        if not rules or not c:
            na.append(dict(property_id=pid, reason=NA.get(pid, 'no static rule for this property is armed in this revision of the machinery (see DESIGN.md section 5 for the planned clauses); nothing is claimed')))
            continue
        checks.append(dict(
            property_id=pid,
            quick_cmd='python3 -m usa.check %s --tier quick' % pid,
            thorough_cmd='python3 -m usa.check %s --tier thorough' % pid,
            evidence_file='/verif/evidence/%s.json' % pid,
            replay_cmd_template='python3 -m usa.check %s --replay {path}' % pid,
            engine='usa',
            level_claimed=dict(
                category='other',
                text='Static analysis of necessary structural conditions, on every path of the real source (template patterns included), in '
                     '%s configurations (quick: c++20 and gnu++17 with asserts, gnu++17 NDEBUG = the pinned build; thorough adds c++20 NDEBUG and the continuation-visitation build). DECIDED: %s '
                     'NOT DECIDED (declined, see DESIGN.md section 5): %s A green check means these clauses hold on all paths; it does not prove the behavioural '
                     'property for all schedules.' % ('3/5', c['decided'], c['declined']),
                design_ref='DESIGN.md section 5 (%s), section 3.3 (rules %s)' % (pid, ', '.join(r['id'] for r in rules))),
            level_note='Trusted base: clang 14 front end and CFG builder; tools/usa-extract; the role tables in usa/rules (each row a named construct with a reason). '
                       'Rules report analysis-broken (exit 2) when an anchor construct cannot be found, never a pass.',
            technique=c['technique']))
    man = dict(
        version=1,
        setup_cmd='make -C /verif/tools',
        hooks=dict(guard='UNIFEX_VERIF', enable='none needed: the analysis reads the unmodified sources of /repo (no instrumentation, no hook commits)',
                   baseline_off_cmd='cmake --build /repo/_build -- -k 0 -j16; ctest --test-dir /repo/_build -j8 --timeout 900  # (two test targets, any_sender_of_test and async_manual_reset_event_v1_test, do not build in this sandbox and are not in the 467-test baseline)',
                   source_commits=[], add_only=True),
        engines=[dict(name='usa', path='/verif/usa', serves_properties=[c['property_id'] for c in checks],
                      kind_free_text='custom static analyser: libTooling extractor (tools/usa-extract.cc) emitting per-function event CFGs of template '
                                     'patterns and ordinary functions; Python rule engine (dominance, must-pass-through, lock-held dataflow, typestate, '
                                     'memory-order role tables, sibling agreement)')],
        checks=checks,
        not_applicable=na,
        notes='All checks are static (nothing from /repo is executed). Exit 0 held / 1 VIOLATION / 2 analysis-broken. Known genuine defects are in '
              '/verif/known_findings.json. Self-test of the checker (mutants + negative controls): python3 -m usa.selftest.')
    with open(os.path.join(VERIF, 'MANIFEST.json'), 'w') as fh: json.dump(man, fh, indent=1)
    print('claimed', [c['property_id'] for c in checks], 'not_applicable', [n['property_id'] for n in na])


NA = {}

if __name__ == '__main__':
    main()
