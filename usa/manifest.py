"""Regenerates /verif/MANIFEST.json from the rule registry and the per-property texts below:
python3 -m usa.manifest"""
import json, os
from . import core, check

VERIF = core.VERIF

# what each property's check does NOT decide (see DESIGN.md section 4)
DECLINED = {
    'C01': 'that the elected completion path is also reached under every schedule (liveness); behaviour of user-supplied senders/receivers.',
    'C02': 'cross-thread destruction orderings beyond the election/typestate rules; destructor contents of user types.',
    'C03': 'linearizability of N registering threads against M requesters as a property of all schedules.',
    'C04': 'that running children actually observe the request at run time; promptness of completion after a stop request.',
    'C05': 'value equality of forwarded results beyond argument identity; when_any "first" under races; numeric results.',
    'C06': 'which thread a completion runs on (dynamic thread identity); absence of lost wake-ups as a temporal property; fairness of work distribution.',
    'C07': 'exactness/total order of time_point arithmetic (value reasoning; seeded change C07-s2 is outside reach); real-time promptness of cancellation.',
    'C08': 'the admission-versus-close race as a property of all histories.',
    'C09': 'value identity of the result across the heap cell; exhaustive exploration of all orderings of the future state machine (a model-checking question).',
    'C10': 'coroutine frame semantics that belong to the compiler: order of at_coroutine_exit actions, destruction of locals, round-tripping of awaitables.',
    'C11': 'thread identity at completion; soundness of computed trait formulas beyond "every child considered".',
    'C12': 'the value returned by a forwarded query when an adaptor could substitute a different object of the same type.',
    'C13': 'element values and their order (filter polarity, transform results, fold results).',
    'C14': 'bytes transferred, data integrity, values of short/failed system calls, "run() returns after stop" as liveness.',
    'C15': 'mutual exclusion and absence of lost wake-ups as properties of all interleavings.',
    'C16': '"every wait started before set() is resumed" and atomic rendezvous as properties of all histories.',
    'C17': 'find_if parallel chunk arithmetic over all range lengths (integer reasoning, not a path-shape fact); exactness of results.',
    'C18': 'observational transparency as a differential property; equality results.',
    'C19': 'three-party interleavings (completion, stop request, return of start) as such.',
    'C20': 'equality of observable traces across builds as a differential execution; async_trace output; frame push/pop pairing across coroutine suspension points.',
}
TECHNIQUE = {
    'C03': 'lock-held dataflow + dominance/must-pass path rules + memory-order role table over clang CFGs (libTooling)',
    'C12': 'custom AST/CFG query over all receiver classes (libTooling facts) with a reasoned exemption table + compile-only query-forwarding witnesses (clang -fsyntax-only) + the scoped path/typestate rules',
    'C20': 'cross-configuration AST/CFG differential + assertion-purity lint + path-set comparison of if-constexpr arms',
}
DEFAULT_TECHNIQUE = 'interprocedural must/may path and typestate analysis on inlined clang CFGs of template patterns (libTooling) + frozen role tables (memory orders, atomic/state constants, branch polarity, guards, data-flow edges, member types) + compile-only type-level witnesses'


def main():
    check.load_rules()
    props = [json.loads(l) for l in open(os.path.join(VERIF, 'properties.jsonl'))]
    checks, na = [], []
    for p in props:
        pid = p['id']
        rules = [r for r in core.RULES.values() if pid in r['props']]
        c = dict(decided=' '.join('(%s) %s.' % (r['id'], r['doc'].split('\n')[0].rstrip('.')) for r in rules), declined=DECLINED[pid],
                 technique=TECHNIQUE.get(pid, DEFAULT_TECHNIQUE))
        if not rules or pid not in CLAIMED:
            na.append(dict(property_id=pid, reason=NA.get(pid, 'no static rule for this property is armed in this revision of the machinery (see DESIGN.md section 5 for the planned clauses); nothing is claimed')))
            continue
        checks.append(dict(
            property_id=pid,
            quick_cmd='python3 -m usa.check %s --tier quick' % pid,
            thorough_cmd='python3 -m usa.check %s --tier thorough' % pid,
            evidence_file='/verif/evidence/%s.json' % pid,
            replay_cmd_template='python3 -m usa.check %s --replay {path}' % pid,
            engine='usa',
            level_claimed=dict(
                category='other',
                text='Static analysis of necessary structural conditions, on every path of the real source (template patterns included), in '
                     '%s configurations (quick: c++20 and gnu++17 with asserts, gnu++17 NDEBUG = the pinned build; thorough adds c++20 NDEBUG and the continuation-visitation build). DECIDED: %s '
                     'NOT DECIDED (declined, see DESIGN.md section 4): %s A green check means these clauses hold on all paths; it does not prove the behavioural '
                     'property for all schedules.' % ('3/5', c['decided'], c['declined']),
                design_ref='DESIGN.md section 4 (%s), section 3 (rules %s; plus the safety rules scoped to the files %s is anchored in)' % (pid, ', '.join(r['id'] for r in rules), pid)),
            level_note='Trusted base: clang 14 front end and CFG builder; tools/usa-extract; the role tables in usa/rules (each row a named construct with a reason). '
                       'Rules report analysis-broken (exit 2) when an anchor construct cannot be found, never a pass.',
            technique=c['technique']))
    man = dict(
        version=1,
        setup_cmd='make -C /verif/tools',
        hooks=dict(guard='UNIFEX_VERIF', enable='none needed: the analysis reads the unmodified sources of /repo (no instrumentation, no hook commits)',
                   baseline_off_cmd='cmake --build /repo/_build -- -k 0 -j16; ctest --test-dir /repo/_build -j8 --timeout 900  # (two test targets, any_sender_of_test and async_manual_reset_event_v1_test, do not build in this sandbox and are not in the 467-test baseline)',
                   source_commits=[], add_only=True),
        engines=[dict(name='usa', path='/verif/usa', serves_properties=[c['property_id'] for c in checks],
                      kind_free_text='custom static analyser: libTooling extractor (tools/usa-extract.cc) emitting per-function event CFGs of template '
                                     'patterns and ordinary functions; Python rule engine (dominance, must-pass-through, lock-held dataflow, typestate, '
                                     'memory-order role tables, sibling agreement)')],
        checks=checks,
        not_applicable=na,
        notes='All checks are static (nothing from /repo is executed). Exit 0 held / 1 VIOLATION / 2 analysis-broken. Known genuine defects are in '
              '/verif/known_findings.json. Self-test of the checker (mutants + negative controls): python3 -m usa.selftest.')
    with open(os.path.join(VERIF, 'MANIFEST.json'), 'w') as fh: json.dump(man, fh, indent=1)
    print('claimed', [c['property_id'] for c in checks], 'not_applicable', [n['property_id'] for n in na])


NA = {}
# properties whose rule set is considered complete enough to claim (others stay not_applicable until then)
CLAIMED = {'C01', 'C02', 'C03', 'C04', 'C05', 'C06', 'C07', 'C08', 'C09', 'C10', 'C11', 'C12', 'C13', 'C14', 'C15', 'C16', 'C17', 'C18', 'C19', 'C20'}

if __name__ == '__main__':
    main()
