"""Management of seeded property-breaking changes (written by independent sub-agents) under /verif/seeded/<id>/.

  python3 -m usa.seedtool import <worktree-dir> <PROP>      copy <dir>/_seed/change*.diff + demos into seeded/<PROP>-sN/
  python3 -m usa.seedtool verify <id>...                    scratch worktree /tmp/sv/wt: demo passes without / fails with the patch; full test-suite passes with it
  python3 -m usa.seedtool detect <id>... [--all-props]      apply to /repo, run the check(s), undo straight afterwards; records which rules fire
  python3 -m usa.seedtool sdetect <id>... [--all-props]     same on a scratch copy of include/ + source/ (parallel, /repo untouched)
  python3 -m usa.seedtool table                             markdown table for DESIGN.md

Nothing here is a manifest command; /repo is always restored with `git checkout -- .`.
"""
import glob, json, os, re, shutil, subprocess, sys, time

VERIF = os.path.dirname(os.path.dirname(os.path.abspath(__file__)))
SEEDED = os.path.join(VERIF, 'seeded')
SV = '/tmp/sv/wt'
DEFAULT_DEMO = 'g++ -std={std} -O1 -g -w {defs} -I{wt}/include {demo} {wt}/source/*.cpp {wt}/source/linux/*.cpp -lpthread -o {out}'
BASELINE_NOT_RUN = {'test-any_sender_of_test', 'test-async_manual_reset_event_v1_test'}


def sh(cmd, cwd=None, timeout=3600):
    p = subprocess.run(cmd, shell=True, cwd=cwd, stdout=subprocess.PIPE, stderr=subprocess.STDOUT, text=True, timeout=timeout)
    return p.returncode, p.stdout


def meta_path(i): return os.path.join(SEEDED, i, 'meta.json')
def load_meta(i):
    with open(meta_path(i)) as fh: return json.load(fh)
def save_meta(i, m):
    with open(meta_path(i), 'w') as fh: json.dump(m, fh, indent=1)


def cmd_import(wt, prop, tag='s'):
    sd = os.path.join(wt, '_seed')
    notes = open(os.path.join(sd, 'notes.md')).read() if os.path.exists(os.path.join(sd, 'notes.md')) else ''
    n = 0
    for diff in sorted(glob.glob(os.path.join(sd, 'change*.diff'))):
        k = re.search(r'change(\d+)', diff).group(1)
        i = '%s-%s%s' % (prop, tag, k)
        d = os.path.join(SEEDED, i)
        os.makedirs(d, exist_ok=True)
        shutil.copy(diff, os.path.join(d, 'patch.diff'))
        demo = os.path.join(sd, 'demo%s.cpp' % k)
        if os.path.exists(demo): shutil.copy(demo, os.path.join(d, 'demo.cpp'))
        with open(os.path.join(d, 'notes.md'), 'w') as fh: fh.write(notes)
        files = re.findall(r'^\+\+\+ b/(\S+)', open(diff).read(), re.M)
        std = 'c++20 -fcoroutines' if re.search(r'demo%s\.cpp[^\n]*\n?[^\n]*c\+\+20|c\+\+20[^\n]*demo%s' % (k, k), notes) else 'gnu++17'
        m = dict(id=i, property=prop, files=files, source='independent sub-agent given only the property text and a scratch worktree',
                 demo_std=std, demo_defs='', needs_to_manifest='', what_was_run={}, detected_by=None)
        if os.path.exists(meta_path(i)):
            old = load_meta(i); old.update({k2: v for k2, v in m.items() if k2 not in old}); m = old
        save_meta(i, m)
        n += 1
        print('imported', i, files)
    return n


def build_demo(i, m, out):
    cmd = DEFAULT_DEMO.format(std=m.get('demo_std', 'gnu++17'), defs=m.get('demo_defs', ''), wt=SV, demo=os.path.join(SEEDED, i, 'demo.cpp'), out=out)
    return sh(cmd, timeout=900)


def cmd_verify(ids, tests=True):
    for i in ids:
        m = load_meta(i)
        t0 = time.time()
        rc, out = sh('git -C %s status --porcelain --untracked-files=no' % SV)
        if out.strip(): sh('git -C %s checkout -- .' % SV)
        res = {}
        rc, out = build_demo(i, m, '/tmp/sv/demo_clean')
        if rc != 0: res['demo_clean'] = 'BUILD-FAIL: ' + out[-400:]
        else:
            rc, out = sh('timeout 120 /tmp/sv/demo_clean', timeout=200)
            res['demo_clean'] = 'exit %d' % rc; res['demo_clean_tail'] = out[-300:]
        rc, out = sh('git -C %s apply %s' % (SV, os.path.join(SEEDED, i, 'patch.diff')))
        if rc != 0:
            res['apply'] = 'FAILED: ' + out[-300:]
        else:
            res['apply'] = 'ok'
            rc, out = build_demo(i, m, '/tmp/sv/demo_mut')
            if rc != 0: res['demo_mutated'] = 'BUILD-FAIL: ' + out[-400:]
            else:
                rc, out = sh('timeout 120 /tmp/sv/demo_mut', timeout=200)
                res['demo_mutated'] = 'exit %d' % rc; res['demo_mutated_tail'] = out[-400:]
            if tests:
                rc, out = sh('ninja -C %s/_build -k 0 -j12 2>&1 | grep -E "^FAILED" ' % SV, timeout=3000)
                failed_targets = sorted(set(re.findall(r'FAILED: (\S+)', out)))
                res['build_failed_targets'] = [t for t in failed_targets if 'any_sender_of_test' not in t and 'async_manual_reset_event_v1_test' not in t]
                rc, out = sh('ctest --test-dir %s/_build -j8 --timeout 600 2>&1 | tail -15' % SV, timeout=3000)
                bad = set(re.findall(r'\d+ - (\S+) \(', out)) - BASELINE_NOT_RUN
                res['tests_failing_with_change'] = sorted(bad)
                mm = re.search(r'(\d+)% tests passed, (\d+) tests failed out of (\d+)', out)
                res['ctest_summary'] = mm.group(0) if mm else out[-200:]
            sh('git -C %s checkout -- .' % SV)
        res['wall_s'] = round(time.time() - t0)
        ok = res.get('demo_clean') == 'exit 0' and res.get('apply') == 'ok' and str(res.get('demo_mutated', '')).startswith('exit') and res.get('demo_mutated') != 'exit 0' \
            and (not tests or (not res.get('build_failed_targets') and not res.get('tests_failing_with_change')))
        res['confirmed'] = bool(ok)
        m['what_was_run']['verify'] = res
        save_meta(i, m)
        print(i, 'CONFIRMED' if ok else 'NOT-CONFIRMED', {k: v for k, v in res.items() if not k.endswith('_tail')})
    if tests:
        # leave the scratch build in the clean state
        sh('ninja -C %s/_build -k 0 -j12 > /dev/null 2>&1' % SV, timeout=3000)


def cmd_detect(ids, all_props=False):
    man = json.load(open(os.path.join(VERIF, 'MANIFEST.json')))
    claimed = [c['property_id'] for c in man['checks']]
    for i in ids:
        m = load_meta(i)
        rc, out = sh('git -C /repo status --porcelain --untracked-files=no')
        if out.strip():
            print('refusing: /repo has uncommitted changes'); return
        rc, out = sh('git -C /repo apply %s' % os.path.join(SEEDED, i, 'patch.diff'))
        if rc != 0:
            print(i, 'patch does not apply to /repo:', out[-200:]); continue
        try:
            props = claimed if all_props else [m['property']] if m['property'] in claimed else []
            fired = {}
            for p in props:
                rc, out = sh('python3 -m usa.check %s --no-write' % p, cwd=VERIF, timeout=1200)
                rules = sorted(set(re.findall(r'^  (R-[\w-]+) ', out, re.M)))
                if rc == 1: fired[p] = rules
                elif rc == 2: fired[p] = ['ANALYSIS-BROKEN'] + rules
            m['detected_by'] = fired
            m['detect_props_run'] = props
            save_meta(i, m)
            print(i, 'DETECTED' if any(v and v != ['ANALYSIS-BROKEN'] for v in fired.values()) else ('broken' if fired else 'missed'), fired)
        finally:
            sh('git -C /repo checkout -- .')


def _detect_scratch_one(args):
    i, props = args
    import shutil
    sd = os.path.join(VERIF, 'out', 'scratch', 'seed-' + i)
    shutil.rmtree(sd, ignore_errors=True); os.makedirs(sd)
    try:
        for d in ('include', 'source'): shutil.copytree(os.path.join('/repo', d), os.path.join(sd, d))
        rc, out = sh('patch -p1 -s -d %s < %s' % (sd, os.path.join(SEEDED, i, 'patch.diff')))
        if rc != 0: return i, None, 'patch does not apply: ' + out[-200:]
        fired = {}
        for p in props:
            rc, out = sh('python3 -m usa.check %s --no-write --repo %s' % (p, sd), cwd=VERIF, timeout=1200)
            rules = sorted(set(re.findall(r'^  (R-[\w-]+) ', out, re.M)))
            if rc == 1: fired[p] = rules
            elif rc == 2: fired[p] = ['ANALYSIS-BROKEN'] + rules
        return i, fired, ''
    finally:
        shutil.rmtree(sd, ignore_errors=True)


def cmd_detect_scratch(ids, all_props=False, jobs=4):
    """same as detect, but on a scratch copy of /repo's include/ + source/ with the patch applied (never touches /repo; parallel)"""
    from concurrent.futures import ThreadPoolExecutor
    man = json.load(open(os.path.join(VERIF, 'MANIFEST.json')))
    claimed = [c['property_id'] for c in man['checks']]
    work = []
    for i in ids:
        m = load_meta(i)
        work.append((i, claimed if all_props else [m['property']] if m['property'] in claimed else []))
    with ThreadPoolExecutor(max_workers=jobs) as ex:
        for i, fired, err in ex.map(_detect_scratch_one, work):
            if fired is None: print(i, err); continue
            m = load_meta(i)
            if all_props: m['detected_by_all_props'] = fired
            else: m['detected_by'] = fired; m['detect_props_run'] = [m['property']]
            save_meta(i, m)
            print(i, 'DETECTED' if any(v and v != ['ANALYSIS-BROKEN'] for v in fired.values()) else ('broken' if fired else 'missed'), fired)


def cmd_table():
    print('| id | property | files | needs | confirmed | detected by |')
    print('|---|---|---|---|---|---|')
    for d in sorted(os.listdir(SEEDED)):
        if not os.path.exists(meta_path(d)): continue
        m = load_meta(d)
        v = m.get('what_was_run', {}).get('verify', {})
        det = m.get('detected_by')
        dets = '; '.join('%s: %s' % (p, ', '.join(r)) for p, r in (det or {}).items()) or ('not detected' if det is not None else 'not run')
        print('| %s | %s | %s | %s | %s | %s |' % (d, m['property'], ', '.join(os.path.basename(f) for f in m.get('files', [])), m.get('needs_to_manifest', '')[:140], 'yes' if v.get('confirmed') else 'no', dets))


if __name__ == '__main__':
    a = sys.argv[1:]
    if a[0] == 'import': cmd_import(a[1], a[2], a[3] if len(a) > 3 else 's')
    elif a[0] == 'verify': cmd_verify([x for x in a[1:] if not x.startswith('--')], tests='--no-tests' not in a)
    elif a[0] == 'detect': cmd_detect([x for x in a[1:] if not x.startswith('--')], all_props='--all-props' in a)
    elif a[0] == 'sdetect': cmd_detect_scratch([x for x in a[1:] if not x.startswith('--')], all_props='--all-props' in a)
    elif a[0] == 'table': cmd_table()
    elif a[0] in ('benign', 'applylog'): pass


def _benign_one(i):
    import shutil
    BEN = os.path.join(VERIF, 'benign')
    sd = os.path.join(VERIF, 'out', 'scratch', 'benign-' + i)
    shutil.rmtree(sd, ignore_errors=True); os.makedirs(sd)
    try:
        for d in ('include', 'source'): shutil.copytree(os.path.join('/repo', d), os.path.join(sd, d))
        rc, out = sh('patch -p1 -s -d %s < %s' % (sd, os.path.join(BEN, i, 'patch.diff')))
        if rc != 0: return i, None, 'patch does not apply: ' + out[-200:]
        man = json.load(open(os.path.join(VERIF, 'MANIFEST.json')))
        res = {}
        for c in man['checks']:
            p = c['property_id']
            rc, out = sh('python3 -m usa.check %s --no-write --repo %s' % (p, sd), cwd=VERIF, timeout=1800)
            if rc != 0:
                res[p] = (rc, [l.strip()[:260] for l in out.splitlines() if l.startswith('  R-') or 'BROKEN' in l][:4])
        return i, res, ''
    finally:
        shutil.rmtree(sd, ignore_errors=True)


def cmd_benign(ids, jobs=3):
    """behaviour-preserving refactorings (benign/<id>/patch.diff, written by independent sub-agents): every check must stay silent"""
    from concurrent.futures import ThreadPoolExecutor
    BEN = os.path.join(VERIF, 'benign')
    if not ids: ids = sorted(d for d in os.listdir(BEN) if os.path.isdir(os.path.join(BEN, d)))
    bad = 0
    with ThreadPoolExecutor(max_workers=jobs) as ex:
        for i, res, err in ex.map(_benign_one, ids):
            if res is None: print(i, err); continue
            if res:
                bad += 1
                print(i, 'FALSE-ALARM')
                for p, (rc, lines) in res.items():
                    print('   ', p, 'rc=%d' % rc)
                    for l in lines: print('       ', l)
            else:
                print(i, 'silent (all %d checks exit 0)' % 20)
    print('%d patches, %d with alarms' % (len(ids), bad))


if __name__ == '__main__' and sys.argv[1:2] == ['benign']:
    cmd_benign([x for x in sys.argv[2:] if not x.startswith('--')])


def cmd_applylog(path):
    """take over the results of an sdetect run made elsewhere (e.g. from a `vp run` snapshot): lines `<id> DETECTED|missed|broken {...}`"""
    import ast
    n = 0
    for line in open(path):
        m = re.match(r'^(C\d\d-\w+) (DETECTED|missed|broken) (\{.*\})\s*$', line)
        if not m or not os.path.exists(meta_path(m.group(1))): continue
        mm = load_meta(m.group(1))
        mm['detected_by'] = ast.literal_eval(m.group(3)); mm['detect_props_run'] = [mm['property']]
        save_meta(m.group(1), mm); n += 1
    print('updated', n, 'seeds')


if __name__ == '__main__' and sys.argv[1:2] == ['applylog']:
    cmd_applylog(sys.argv[2])
