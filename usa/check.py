"""python3 -m usa.check <Cxx> [--tier quick|thorough] [--replay <file>] [--rule R-...] [--repo DIR]

Decides the static clauses of one property on /repo's current working tree (see DESIGN.md)."""
import argparse, importlib, json, os, pkgutil, sys, time, traceback

from . import core, extract
from .facts import Facts

ASSUMPTIONS = [
    "clang 14's front end, template-pattern AST and CFG construction (tools/usa-extract) represent the source faithfully",
    "receiver contract of this library: a set_value that exits with an exception is reported through set_error (not a double completion)",
    "the frozen tables under /verif/tables and the role tables inside the rule modules (each row: one named construct with a reason)",
    "only necessary structural conditions of the property are decided; the clauses listed as declined in DESIGN.md section 4 are not",
]


# a rule instance is owned by one property, but the clause it decides can be a necessary condition of others as well;
# those checks run it too (one defect is then reported under every property it breaks)
EXTRA_PROPS = {
    'R-LIST-C06': ['C01', 'C07'], 'R-LIST-C07': ['C01', 'C06'], 'R-LIST-C03': ['C04', 'C08', 'C01'],
    'R-ELECT-C08': ['C01', 'C02', 'C09'], 'R-ELECT-C10': ['C01', 'C02'], 'R-ELECT-C13': ['C01', 'C02'], 'R-ELECT-C14': ['C01', 'C02'], 'R-ELECT-C19': ['C01', 'C02'], 'R-ELECT-C06': ['C01'],
    'R-ELECT-C01': ['C04', 'C05', 'C02'],
    'R-DEREG-C07': ['C04'], 'R-DEREG-C14': ['C04'], 'R-DEREG-C19': ['C04'], 'R-DEREG-C13': ['C04'], 'R-DEREG-C18': ['C04'], 'R-DEREG-C10': ['C04'],
    'R-DEREG-C04': ['C02'],
    'R-SIG-1': ['C05', 'C13', 'C19'], 'R-SIG-3': ['C02'],
    'R-MLT-HOST': ['C13'], 'R-MLT-FLAG': ['C01', 'C05', 'C13'], 'R-MLT-PAIR': ['C10', 'C16'], 'R-UAC-RELEASE': ['C01', 'C04', 'C19'],
    'R-LOCK-C06': ['C01'], 'R-LOCK-C07': ['C06'], 'R-NOTIFY': ['C07', 'C01'],
    'R-MO-C01': ['C04'], 'R-MO-C06': ['C14', 'C15'], 'R-MO-C15': ['C16'], 'R-MO-C19': ['C15', 'C16'],
    'R-QRY': ['C04', 'C18'],
    'R-INIT-DISCR': ['C07'], 'R-EXC-PAIR': ['C06', 'C01'],
    'R-CHAN': ['C20', 'C01'], 'R-CHAN-CTX': ['C11', 'C01'], 'R-MOVE': ['C10'], 'R-SIB-C14': ['C07'], 'R-SIB-C01': ['C04', 'C05'],
}


# Rules whose clause (memory/lifetime safety, completion count, elections, atomics, deregistration, channel mapping) is a
# necessary condition of *every* behavioural property for the code that property is anchored in: they also run under a
# property that does not list them, restricted to constructs located in that property's anchored files
# (properties.jsonl anchors.files + polarity.EXTRA_FILES).  Prefix match on the rule id.
SAFETY_RULES = ('R-SIG-', 'R-MLT-', 'R-UAC-', 'R-DISCR-ORDER', 'R-INIT-DISCR', 'R-EXC-PAIR', 'R-MOVE', 'R-FWD-ONCE', 'R-NOTHROW-SRC', 'R-NOEXCEPT-', 'R-OWN-', 'R-SMF-FLAG', 'R-ASSIGN-ALIAS',
                'R-ELECT-', 'R-DEREG-', 'R-CAS-STALE', 'R-MO-', 'R-AVAL-', 'R-CHAN', 'R-CB-AFTER-INIT', 'R-STOP-WRITES', 'R-CANCEL-FLAG', 'R-LIST-', 'R-LOCK-',
                'R-NOTIFY', 'R-REQSTOP-', 'R-SIB-')
SCOPED_NOT_FOR = {'C20'}     # C20 compares configurations; it borrows nothing


def code_hash():
    import hashlib
    h = hashlib.sha256()
    for d in ('usa', 'usa/rules', 'tables', 'witness'):
        dd = os.path.join(core.VERIF, d)
        for f in sorted(os.listdir(dd)):
            p = os.path.join(dd, f)
            if os.path.isfile(p) and not f.endswith('.pyc'):
                h.update(f.encode())
                with open(p, 'rb') as fh: h.update(fh.read())
    return h.hexdigest()[:16]


def run_rule_cached(run, r, cfg, F, cdir):
    """run rule r for configuration cfg; the rule's raw output (instances, violations, broken) is cached by
    (facts digest, checker code + tables hash, configuration, rule) so that the twenty checks share the work.
    The cache key contains the content hash of /repo's sources: a changed tree is always re-analysed."""
    cp = os.path.join(cdir, cfg.replace('*', 'X'), r['id'] + '.json') if cdir else None
    log = None
    if cp and os.path.exists(cp):
        try:
            with open(cp) as fh: log = json.load(fh)
        except Exception:
            log = None
    if log is not None:
        core.replay(run, log)
        return
    run.log = []
    try:
        try:
            r['fn'](run, F)
        except core.Broken as ex:
            run.broke(str(ex))
        except Exception as ex:
            run.broke('rule crashed: %s: %s' % (type(ex).__name__, ex))
            traceback.print_exc()
        log = run.log
    finally:
        run.log = None
    if cp:
        os.makedirs(os.path.dirname(cp), exist_ok=True)
        tmp = cp + '.%d.tmp' % os.getpid()
        with open(tmp, 'w') as fh: json.dump(log, fh)
        os.replace(tmp, cp)


def load_rules():
    from . import rules
    for m in pkgutil.iter_modules(rules.__path__):
        importlib.import_module('usa.rules.' + m.name)
    for rid, extra in EXTRA_PROPS.items():
        if rid in core.RULES:
            for p in extra:
                if p not in core.RULES[rid]['props']: core.RULES[rid]['props'] = list(core.RULES[rid]['props']) + [p]


def main(argv=None):
    ap = argparse.ArgumentParser()
    ap.add_argument('prop')
    ap.add_argument('--tier', default=os.environ.get('VERIF_TIER') or 'quick', choices=['quick', 'thorough'])
    ap.add_argument('--rule', action='append')
    ap.add_argument('--replay')
    ap.add_argument('--repo')
    ap.add_argument('--no-write', action='store_true', help='print the verdict but do not write evidence/replay files (used by the self-test)')
    a = ap.parse_args(argv)
    t0 = time.time()
    os.environ['USA_TIER'] = a.tier
    seed = int(os.environ.get('VERIF_SEED') or 0)
    if a.repo: extract.REPO = a.repo
    load_rules()
    run = core.Run(a.prop, a.tier, seed)
    rules = [r for r in core.RULES.values() if a.prop in r['props']]
    primary = {r['id'] for r in rules}
    from .rules.polarity import file_props
    scope_files = {f for f, ps in file_props().items() if a.prop in ps}
    if a.prop not in SCOPED_NOT_FOR:
        rules += [r for r in core.RULES.values() if r['id'] not in primary and r['id'].startswith(SAFETY_RULES)]
    if a.rule: rules = [r for r in rules if r['id'] in a.rule]
    replay = None
    if a.replay:
        replay = json.load(open(a.replay))
        rules = [r for r in core.RULES.values() if r['id'] == replay['rule']]
        primary |= {r['id'] for r in rules}
    if not rules:
        print('ANALYSIS-BROKEN property=%s no rules registered' % a.prop); return 2
    cfgs = extract.TIER_CONFIGS[a.tier]
    meta = dict(configs=cfgs)
    try:
        files, dg = extract.extract(cfgs, repo=a.repo)
    except extract.AnalysisBroken as ex:
        run.cur_rule, run.cur_cfg = 'EXTRACT', '-'
        run.broke(str(ex))
        return core.finish(run, t0, meta, 'extraction failed', ASSUMPTIONS)
    meta['digest'] = dg
    cdir = os.path.join(core.VERIF, 'out', 'rcache', dg + '-' + code_hash() + '-' + a.tier[0]) if not os.environ.get('USA_NO_RCACHE') else None
    if cdir:
        os.makedirs(cdir, exist_ok=True)
        os.utime(cdir)
        extract._gc(os.path.join(core.VERIF, 'out', 'rcache'), keep=os.path.basename(cdir), maxdirs=8)
    nfun = nrec = nunits = 0
    allF = {cfg: Facts(files[cfg], cfg) for cfg in cfgs}
    run.facts = allF
    for cfg in cfgs + ['*']:
        if cfg != '*':
            F = allF[cfg]
            nfun = max(nfun, len(F.funcs)); nrec = max(nrec, len(F.recs)); nunits = max(nunits, len(files[cfg]))
        else:
            F = allF      # cross-configuration rules get the whole dict, once
        for r in rules:
            if (cfg == '*') != bool(r.get('cross')): continue
            if r['configs'] and cfg != '*' and cfg not in r['configs']: continue
            run.cur_rule, run.cur_cfg = r['id'], cfg
            before = sum(n_ for (rid_, c_), n_ in run.counts.items() if rid_ == r['id'])
            run.scope = None if r['id'] in primary else scope_files
            run_rule_cached(run, r, cfg if cfg != '*' else '*' + '-'.join(cfgs), F, cdir)
            scoped = run.scope is not None
            run.scope = None
            if scoped: continue          # floors belong to the rule's own properties
            n = sum(n_ for (rid_, c_), n_ in run.counts.items() if rid_ == r['id']) - before
            if n < r['floor']:
                run.broke('instance floor not met: %d < %d (the constructs this rule reasons about were not found)' % (n, r['floor']))
    meta.update(functions=nfun, records=nrec, units=nunits)
    if replay:
        hit = [v for v in run.violations.values() if v['rule'] == replay['rule'] and v['function'] == replay['function'] and v['key'] == replay['key']]
        if hit:
            v = hit[0]
            print('REPLAY reproduced: %s %s: %s (%s key=%s)' % (v['rule'], v['loc'], v['message'], v['function'], v['key']))
            for s in v['path']: print('    ' + str(s))
            return 1
        print('REPLAY not reproduced on the current tree: %s %s key=%s' % (replay['rule'], replay['function'], replay['key']))
        return 0
    expl = 'static analysis (libTooling event-CFG extraction over template patterns + path/dominance/typestate rules): ' + \
           '; '.join('%s: %s' % (r['id'], r['doc'].split('\n')[0]) for r in rules)
    return core.finish(run, t0, meta, expl, ASSUMPTIONS, write=not a.no_write)


if __name__ == '__main__':
    sys.exit(main())
