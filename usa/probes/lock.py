import collections,re,json
from load import *
funcs,recs=load()
def paths_in(x,acc):
    if isinstance(x,dict):
        if x.get('op') in('path','call') and 'p' in x: acc.append(x['p'])
        for v in x.values(): paths_in(v,acc)
    elif isinstance(x,list):
        for v in x: paths_in(v,acc)
mutex_recs={}
seen=set()
for r in recs:
    if (r['qname'],r['loc']) in seen: continue
    seen.add((r['qname'],r['loc']))
    ms=[fl['name'] for fl in r['fields'] if re.search(r'\bstd::(recursive_)?mutex\b|^mutex$',fl.get('ctype','')+' '+fl.get('type',''))]
    if ms: mutex_recs[r['qname']]=(ms,[fl['name'] for fl in r['fields'] if not fl.get('static')])
print({k:v[0] for k,v in mutex_recs.items()})
# per function lock-state dataflow: state = frozenset of held lock vars -> mutex path
stats=collections.defaultdict(lambda: collections.Counter())
for f in funcs:
    blocks={b['id']:b for b in f.get('blocks',[])}
    if not blocks: continue
    hasmutex=any(e['k'] in('construct','decl') and re.search(r'unique_lock|lock_guard|scoped_lock',json.dumps(e)) for b,e in events(f))
    if not hasmutex: continue
    IN=collections.defaultdict(set); IN[f['entry']].add(frozenset()); work=[f['entry']]
    acc=collections.defaultdict(set)  # field -> set of (locked?)
    it=0
    while work:
        it+=1
        if it>3000: break
        bid=work.pop(); b=blocks[bid]
        for st0 in list(IN[bid]):
            st=set(st0)
            for e in b['elems']:
                if e['k']=='decl':
                    for v in e['vars']:
                        if re.search(r'unique_lock|lock_guard|scoped_lock',v.get('type','')+v.get('wtype','')):
                            init=json.dumps(v.get('init'))
                            if 'try_to_lock' in init or 'defer_lock' in init: st.add((v['var'],'maybe'))
                            else: st.add((v['var'],'held'))
                elif e['k']=='call':
                    nm=e['callee'].get('name'); base=e['callee'].get('base','')
                    if nm=='unlock' and any(v==base for v,_ in st): st={(v,s) for v,s in st if v!=base}|{(base,'released')}
                    elif nm=='lock' and any(v==base for v,_ in st): st={(v,s) for v,s in st if v!=base}|{(base,'held')}
                    elif nm in('wait','wait_until','wait_for'):
                        acc['<cv.wait>'].add(('held' if any(s=='held' for _,s in st) else 'NOT', f['name'], e['line'], 'inloop' ))
                    elif nm in('execute','resume_','set_value','set_done','set_error') or e['callee'].get('qname','').startswith('unifex::_rec_cpo'):
                        acc['<callout:%s>'%nm].add(('held' if any(s=='held' for _,s in st) else 'free', f['name'], e['line']))
                elif e['k']=='autodtor':
                    st={(v,s) for v,s in st if v!=e['var']}
                ps=[]
                paths_in({k:v for k,v in e.items() if k in('args','rhs','vars','v')},ps)
                if e['k']=='assign': ps.append(e['lhs'])
                for p in ps:
                    if p.startswith('this.') or re.match(r'(task_|op_|context_|state)\b',p):
                        fld=p.split('.')[1] if p.startswith('this.') else p
                        held=any(s=='held' for _,s in st) or (any(s=='maybe' for _,s in st) and 'lk' not in p)
                        acc[fld.replace('()','')].add(('held' if held else 'FREE', f['name'], e.get('line')))
            t=b.get('term')
            if t and t.get('cond'):
                ps=[]; paths_in(t['cond'],ps)
                for p in ps:
                    if p.startswith('this.'):
                        held=any(s=='held' for _,s in st)
                        acc[p.split('.')[1].replace('()','')].add(('held' if held else 'FREE', f['name'], t.get('line')))
            fs=frozenset(st)
            for sid in b['succs']:
                if isinstance(sid,int) and fs not in IN[sid]:
                    IN[sid].add(fs); work.append(sid)
    print('FUNC',f['qname'].replace('unifex::',''))
    for fld,s in sorted(acc.items()):
        print('    ',fld, sorted(set((a[0]) for a in s)), sorted(set(a[2] for a in s if a[0] in('FREE','NOT','held') and fld.startswith('<')))[:6])
