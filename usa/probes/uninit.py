import collections,re,json
from load import *
funcs,recs=load()
ctors=collections.defaultdict(list)
for f in funcs:
    if f.get('ctor'): ctors[f['record']].append(f)
reads=collections.defaultdict(list)
def walk(x,cb):
    if isinstance(x,dict):
        cb(x)
        for v in x.values(): walk(v,cb)
    elif isinstance(x,list):
        for v in x: walk(v,cb)
seen=set()
for r in recs:
    if (r['qname'],r['line']) in seen: continue
    seen.add((r['qname'],r['line']))
    cs=ctors.get(r['qname'],[])
    if not cs: continue
    for fl in r['fields']:
        if fl.get('static') or fl.get('has_init') or fl.get('union'): continue
        t=fl.get('ctype') or fl['type']
        if not (t.endswith('*') or t in('bool','int','unsigned int','char','unsigned char') or 'enum' in t): continue
        # initialised by every ctor?
        missing=[]
        for c in cs:
            inits={e.get('field') for b,e in events(c) if e['k']=='init'}
            assigns={e['lhs'].split('.')[-1] for b,e in events(c) if e['k']=='assign'}
            if fl['name'] not in inits and fl['name'] not in assigns: missing.append(c['line'])
        if missing:
            print(r['loc'].replace('/repo/include/unifex/',''),r['qname'].split('::')[-3:],fl['name'],t[:40],'ctors missing:',missing)
