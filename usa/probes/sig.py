import collections,re,sys
from load import *
TERM={'unifex::_rec_cpo::set_value':'value','unifex::_rec_cpo::set_error':'error','unifex::_rec_cpo::set_done':'done'}
def family_of(q):
    parts=q.split('::')
    for i,p in enumerate(parts):
        if i>0 and p.startswith('_') and p not in('_cpo',):
            return '::'.join(parts[:i+1])
    return '::'.join(parts[:2])
class Prog:
    def __init__(s,funcs,recs):
        s.funcs=funcs; s.recs=recs
        s.by_family=collections.defaultdict(list)
        s.lambdas={}
        for f in funcs:
            f['_family']=family_of(f.get('record') or f['qname'])
            s.by_family[f['_family']].append(f)
            if f.get('lambda'): s.lambdas[f['fid']]=f
        s.memo={}
    def resolve(s,f,e):
        """resolve a call event to candidate family functions"""
        ce=e['callee']; k=ce.get('kind'); name=ce.get('name')
        if k in('member','dep_member'):
            if name in ('set_value','set_error','set_done','start','stop','get','get_receiver','reset','release','construct','construct_with','destruct','emplace','load','store','exchange','fetch_add','fetch_sub','fetch_or','fetch_and','compare_exchange_strong','compare_exchange_weak'):
                # only resolve handler-ish names if base is a family object (not receiver_)
                if name not in('set_value','set_error','set_done','start','stop'): return []
                base=ce.get('base','')
                if re.search(r'(receiver_?|rec_|receiver\(\))$',base): return []
            cands=[g for g in s.by_family[f['_family']] if g['name']==name and not g.get('lambda')]
            return cands
        if k in ('func','unresolved','dep_scope') :
            cands=[g for g in s.by_family[f['_family']] if g['name']==name and not g.get('lambda')]
            return cands
        return []
    def summary(s,f,stack=()):
        key=id(f)
        if key in s.memo: return s.memo[key]
        if key in stack: return {'counts':{0},'handoff':False}
        blocks={b['id']:b for b in f.get('blocks',[])}
        if not blocks: return {'counts':{0},'handoff':False}
        # handler entry blocks & try ranges
        tries=f.get('try',[])
        handler_entries={}
        for b in blocks.values():
            t=b.get('term')
            if t and t['kind']=='CXXTryStmt':
                handler_entries[t['line']]=[x for x in b['succs'] if isinstance(x,int)]
        def in_try(line):
            r=[]
            for tr in tries:
                if tr['try_begin']<=line<=tr['try_end']: r.append(tr)
            return r
        # state: frozenset of (count, handoff) pairs
        IN=collections.defaultdict(set)
        entry=f['entry']; IN[entry].add((0,False))
        work=[entry]; OUT={}
        exc_states=collections.defaultdict(set) # handler entry block -> states
        def lam_summary(fid):
            g=s.lambdas.get(fid)
            return s.summary(g,stack+(key,)) if g else {'counts':{0},'handoff':False}
        def step(states,e,b):
            k=e['k']
            if k!='call': return states
            ce=e['callee']; q=ce.get('qname','')
            new=set()
            if q in TERM:
                for c,h in states: new.add((min(c+1,2),h))
                return new
            if q=='unifex::start' or ce.get('name') in('resume','resume_done'):
                return {(c,True) for c,h in states}
            # lambdas passed as args to std::visit/apply/invoke or immediately invoked: inline once
            lamfids=[a for a in e.get('_lams',[])]
            cands=s.resolve(f,e)
            if cands:
                res=set()
                for g in cands:
                    sm=s.summary(g,stack+(key,))
                    for c,h in states:
                        for c2 in sm['counts']:
                            res.add((min(c+c2,2),h or sm['handoff']))
                return res
            return states
        # pre-pass: map lambda events to subsequent call that uses them (same block, after)
        for b in blocks.values():
            lam_lines=[]
            for e in b['elems']:
                if e['k']=='lambda': lam_lines.append(e)
            # attach lambda to calls in the same block whose args mention <lambda@line>
            for e in b['elems']:
                if e['k']=='call':
                    txt=json.dumps(e.get('args',[]))+json.dumps(e['callee'])
                    e['_lams']=[l['fid'] for l in lam_lines if ('<lambda@%d>'%l['line']) in txt]
        it=0
        while work:
            it+=1
            if it>5000: break
            bid=work.pop()
            b=blocks[bid]; states=set(IN[bid])
            for e in b['elems']:
                # exceptional edge before this event if inside try
                ln=e.get('line',0)
                for tr in in_try(ln):
                    for hb in handler_entries.get(tr['try_begin'],[]) or []:
                        pass
                if e['k']=='call':
                    # inline lambdas referenced
                    for fid in e.get('_lams',[]):
                        cal=e['callee'].get('qname','') or e['callee'].get('name','')
                        sm=lam_summary(fid)
                        ns=set()
                        for c,h in states:
                            for c2 in sm['counts']: ns.add((min(c+c2,2),h or sm['handoff']))
                        # lambdas stored (scope_guard, callbacks) are not executed here: only inline for visit/apply/invoke/direct
                        if re.search(r'(visit|apply|invoke|call_once|for_each|transform|complete|activate_union_member_with|construct_with|handle_signal)$',cal) or e['callee'].get('kind')=='expr':
                            states=ns
                    # record exception state (before event) for handlers
                    for tr in tries:
                        if tr['try_begin']<=ln<=tr['try_end']:
                            exc_states[tr['try_begin']]|=states
                states=step(states,e,b)
            OUT[bid]=states
            succs=[x for x in b['succs'] if isinstance(x,int)]
            t=b.get('term')
            if t and t['kind']=='CXXTryStmt': succs=[]  # handlers entered via exc_states only
            for sid in succs:
                if not states<=IN[sid]:
                    IN[sid]|=states; work.append(sid)
            # feed handlers
            for tr in tries:
                for b2 in blocks.values():
                    t2=b2.get('term')
                    if t2 and t2['kind']=='CXXTryStmt' and t2['line']<=tr['try_begin']<=t2['line']+1:
                        for hb in [x for x in b2['succs'] if isinstance(x,int)]:
                            st=exc_states[tr['try_begin']]
                            if not st<=IN[hb]:
                                IN[hb]|=st; work.append(hb)
        ex=IN[f['exit']]
        res={'counts':{c for c,h in ex} or {0},'handoff':any(h for c,h in ex),'pairs':ex}
        s.memo[key]=res
        return res
if __name__=='__main__':
    funcs,recs=load()
    P=Prog(funcs,recs)
    n=0
    for f in funcs:
        if f.get('lambda'): continue
        sm=P.summary(f)
        if 2 in sm['counts']:
            print('MULTI',f['loc'],f['qname'],sorted(sm['counts']))
    print('---- handlers with silent path')
    for f in funcs:
        if f.get('lambda'): continue
        if f['name'] in('set_value','set_error','set_done','start') and f.get('record'):
            sm=P.summary(f)
            if any(c==0 and not h for c,h in sm.get('pairs',[(0,False)])):
                n+=1
                print('SILENT',f['loc'],f['qname'])
    print(n)
