import collections,re,json
from load import *
from sig import family_of,TERM
funcs,recs=load()
cbfields=collections.defaultdict(dict)
for r in recs:
    for fl in r['fields']:
        t=(fl.get('wtype') or '')+' '+fl.get('type','')
        if re.search(r'callback_type\s*<|stop_callback|subscription|callback_t\b|fused_stop_source|stop_source_type',t) and not fl.get('static'):
            cbfields[family_of(r['qname'])][fl['name']]=(r['qname'],t[:80])
for fam,fs in sorted(cbfields.items()):
    print(fam, {k:v[1][:50] for k,v in fs.items()})
    names=set(fs)
    for f in funcs:
        if family_of(f.get('record') or f['qname'])!=fam: continue
        seq=[]
        for b,e in events(f):
            if e['k']!='call': continue
            ce=e['callee']; q=ce.get('qname','');nm=ce.get('name')
            if q in TERM: seq.append('T:'+TERM[q]+'@%d'%e['line'])
            elif nm in('destruct','reset','unsubscribe','deregister_callbacks') and ce.get('base','').split('.')[-1] in names: seq.append('D:'+ce['base'].split('.')[-1]+'@%d'%e['line'])
            elif nm in('construct','emplace','subscribe','register_callbacks','construct_with') and ce.get('base','').split('.')[-1] in names: seq.append('R:'+ce['base'].split('.')[-1]+'@%d'%e['line'])
            elif nm=='deactivate_union_member' : pass
        if seq: print('    ',f['qname'].split('::',2)[-1][-70:],f['line'],' '.join(seq))
