import collections,re,json
from load import *
from sig import TERM
funcs,recs=load()
def paths_in(x,acc):
    if isinstance(x,dict):
        if x.get('op') in('path','call') and 'p' in x: acc.append(x['p'])
        for v in x.values(): paths_in(v,acc)
    elif isinstance(x,list):
        for v in x: paths_in(v,acc)
n=0
for f in funcs:
    blocks={b['id']:b for b in f.get('blocks',[])}
    if not blocks: continue
    # forward reachability "after a terminal": state bool
    IN=collections.defaultdict(set); IN[f['entry']].add(False); work=[f['entry']]
    hits=set()
    handler_lines=[(h['begin'],h['end']) for t in f.get('try',[]) for h in t['handlers']]
    while work:
        bid=work.pop(); b=blocks[bid]
        for st in list(IN[bid]):
            after=st
            for e in b['elems']:
                if after and e['k'] in('call','assign','incdec'):
                    ps=[]
                    paths_in({k:v for k,v in e.items() if k in('args','rhs')},ps)
                    if e['k']=='call': ps.append(e['callee'].get('base') or '')
                    if e['k'] in('assign','incdec'): ps.append(e['lhs'])
                    bad=[p for p in ps if re.match(r'(this|op_?|self|timerOp|strm|stream_)\b(\.|$)',p or '') and not re.search(r'receiver_?$|rec_$',p)]
                    ln=e.get('line',0)
                    in_handler=any(a<=ln<=b2 for a,b2 in handler_lines)
                    if bad and not in_handler and not(e['k']=='call' and e['callee'].get('qname','') in TERM):
                        hits.add((ln,tuple(bad[:2]), e['callee'].get('name') if e['k']=='call' else e['k']))
                if e['k']=='call' and e['callee'].get('qname','') in TERM: after=True
            t=b.get('term')
            succs=[x for x in b['succs'] if isinstance(x,int)]
            if t and t['kind']=='CXXTryStmt': succs=[]
            for sid in succs:
                if after not in IN[sid]: IN[sid].add(after); work.append(sid)
    if hits:
        n+=1
        print(f['loc'].replace('/repo/include/unifex/',''),f['qname'].split('::')[-2:],sorted(hits)[:3])
print(n)
