import sys,collections,json,time,signal
class TO(Exception): pass
def h(a,b): raise TO()
signal.signal(signal.SIGALRM,h)
sys.path.insert(0,'/tmp/probe')
import ts
from load import load
funcs,recs=load()
fams=collections.Counter(ts.family_of(f.get('record') or f['qname']) for f in funcs)
tot=collections.Counter(); t0=time.time()
for fam in sorted(fams):
    try:
        signal.alarm(20)
        E,res=ts.analyse_family(funcs,recs,fam)
        signal.alarm(0)
    except TO:
        print('==',fam,'TIMEOUT'); continue
    except RecursionError as ex:
        print('==',fam,'RECURSION'); continue
    except Exception as ex:
        print('==',fam,'EXC',type(ex).__name__,str(ex)[:80]); continue
    if not res: continue
    v=[x for x in E.viol if x[0]!='MLT-WRONG-ALT']
    print('==',fam,'ops',len(res),'terminals',sum(r['terminals'] for r in res.values()),'viol',len(v))
    for x in v[:6]: print('     ',x[0],'::'.join(x[1].split('::')[-3:]),x[3],x[4][:100])
    for x in v: tot[x[0]]+=1
print(tot, '%.1fs'%(time.time()-t0))
