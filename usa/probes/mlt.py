import collections,re,json
from load import *
from sig import family_of
funcs,recs=load()
# manual-lifetime member events: construct/destruct with target member (last path component)
def ml_events(f):
    out=[]
    for b,e in events(f):
        if e['k']!='call': continue
        ce=e['callee']; name=ce.get('name'); kind=ce.get('kind')
        if kind in('member','dep_member') and name in('construct','construct_with','destruct','emplace','reset'):
            base=ce.get('base','')
            out.append((name, base, e.get('targs'), e['line']))
        elif name in('activate_union_member','activate_union_member_with','deactivate_union_member'):
            a=e['args'][0].get('p') if e['args'] else '?'
            out.append((name, a, e.get('targs'), e['line']))
    return out
def last(p): return p.split('.')[-1]
# fields of manual lifetime type
mlfields=collections.defaultdict(dict)
for r in recs:
    for fl in r['fields']:
        t=(fl.get('wtype') or '')+' '+fl.get('type','')
        if 'manual_lifetime' in t or 'std::optional' in t or re.search(r'_union_t|_op_t\b',t):
            mlfields[family_of(r['qname'])][fl['name']]=(r['qname'],fl.get('wtype') or fl.get('type'),fl['line'],r['loc'])
cons=collections.defaultdict(list); des=collections.defaultdict(list)
perfunc={}
for f in funcs:
    fam=family_of(f.get('record') or f['qname'])
    evs=ml_events(f)
    perfunc[id(f)]=evs
    for name,base,targs,line in evs:
        m=last(base)
        if name in('construct','construct_with','activate_union_member','activate_union_member_with','emplace'): cons[(fam,m)].append((f['loc'],line))
        else: des[(fam,m)].append((f['loc'],line))
print("== constructed but never destructed (manual_lifetime-typed fields)")
for (fam,m),sites in sorted(cons.items()):
    if m in mlfields.get(fam,{}) and 'manual_lifetime' in (mlfields[fam][m][1] or '') and not des.get((fam,m)):
        print(fam,m,mlfields[fam][m][1][:70],sites[:3])
print("== sibling handler disagreement on destructed members")
byrec=collections.defaultdict(dict)
for f in funcs:
    if f.get('record') and f['name'] in('set_value','set_error','set_done') and not f.get('lambda'):
        d=frozenset(last(b) for n,b,t,l in perfunc[id(f)] if n in('destruct','deactivate_union_member','reset'))
        byrec[f['record']].setdefault(f['name'],[]).append((d,f['loc']))
for rec,hs in sorted(byrec.items()):
    sets={}
    for h,lst in hs.items():
        for d,loc in lst:
            if d: sets.setdefault(d,[]).append((h,loc))
    if len(sets)>1:
        print(rec)
        for d,l in sets.items(): print('    ',sorted(d),[(h,loc.split('/')[-1]) for h,loc in l])
