import collections,re,json,sys
sys.path.insert(0,'/tmp/probe')
from load import *
from sig import family_of,TERM
funcs,recs=load()
RMW={'fetch_add','fetch_sub','fetch_or','fetch_and','exchange','compare_exchange_strong','compare_exchange_weak','try_complete','complete','try_get_op','finished'}
byfam=collections.defaultdict(list)
for f in funcs: byfam[family_of(f.get('record') or f['qname'])].append(f)
lam={f['fid']:f for f in funcs if f.get('lambda')}
def cond_is_election(f,cond,elvars):
    hit=[False]
    def walk(x):
        if isinstance(x,dict):
            if x.get('op')=='call':
                p=x.get('p','')
                if any(p.endswith(n+'()') or ('.'+n+'()') in p or p.startswith(n+'()') for n in RMW): hit[0]=True
            if x.get('op')=='path' and x.get('p') in elvars: hit[0]=True
            for v in x.values(): walk(v)
        elif isinstance(x,list):
            for v in x: walk(v)
    walk(cond); return hit[0]
def analyse(fam):
    fs=byfam[fam]; byname=collections.defaultdict(list)
    for f in fs:
        if not f.get('lambda'): byname[f['name']].append(f)
    memo={}
    def unguarded(f,stack=()):
        """returns list of terminal lines reachable from entry without passing an election edge"""
        if id(f) in memo: return memo[id(f)]
        if id(f) in stack: return []
        blocks={b['id']:b for b in f.get('blocks',[])}
        if not blocks: return []
        elvars=set()
        for b in blocks.values():
            for e in b['elems']:
                if e['k']=='decl':
                    for v in e['vars']:
                        if v.get('init') and cond_is_election(f,v['init'],set()): elvars.add(v['var'])
        res=[]; seen=set(); work=[f['entry']]
        lams_here={}
        while work:
            bid=work.pop()
            if bid in seen: continue
            seen.add(bid); b=blocks[bid]
            for e in b['elems']:
                if e['k']=='lambda': lams_here[e['line']]=e['fid']
                if e['k']=='call':
                    q=e['callee'].get('qname','')
                    if q in TERM: res.append((f['name'],e['line']))
                    else:
                        nm=e['callee'].get('name')
                        txt=json.dumps(e.get('args',[]))
                        for ln,fid in lams_here.items():
                            if '<lambda@%d>'%ln in txt and fid in lam: res+=unguarded(lam[fid],stack+(id(f),))
                        if e['callee'].get('kind') in('member','dep_member','func','unresolved') and nm in byname and nm not in('set_value','set_error','set_done','start'):
                            for g in byname[nm]: res+=unguarded(g,stack+(id(f),))
            t=b.get('term')
            succs=[x for x in b['succs'] if isinstance(x,int)]
            if t and t.get('cond') is not None and cond_is_election(f,t['cond'],elvars) and len(b['succs'])==2:
                continue  # both outcomes of an election branch count as guarded (winner/loser decided here)
            for sid in succs: work.append(sid)
        memo[id(f)]=res
        return res
    out={}
    for f in fs:
        if f.get('lambda'): continue
        isentry = f['name'] in('set_value','set_error','set_done','operator()','request_stop','stop') or f['name'].startswith('on_') or f['name'] in('execute_impl','complete_with_done','maybe_complete_with_value')
        if isentry:
            u=unguarded(f)
            if u: out[f['qname'].replace('unifex::','')[-60:]+'@%d'%f['line']]=sorted(set(u))[:4]
    return out
# families that have a stop callback able to run concurrently or >=2 child starts
interesting=['unifex::_when_all','unifex::_when_all_range','unifex::_stop_when','unifex::_async_scope','unifex::_type_erase','unifex::_take_until','unifex::_stop_immediately','unifex::_detach_on_cancel','unifex::_stop_on_request','unifex::v2::async_mutex::lock_raw_sender::_op','unifex::v2::async_manual_reset_event::wait_raw_sender::_op','unifex::_never','unifex::linuxos','unifex::_timed_single_thread_context','unifex::_spawn_future']
for fam in interesting:
    r=analyse(fam)
    print('==',fam.replace('unifex::',''))
    for k,v in r.items(): print('    unguarded from',k,'->',v)
