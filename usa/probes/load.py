import json,glob,collections,os
def load(pattern='/tmp/probe/facts/*.json'):
    funcs=[];recs=[]
    for p in sorted(glob.glob(pattern)):
        try: d=json.load(open(p))
        except Exception as e: print('bad',p,e); continue
        for f in d['functions']: f['_src']=os.path.basename(p); funcs.append(f)
        for r in d['records']: r['_src']=os.path.basename(p); recs.append(r)
    return funcs,recs
def events(f):
    for b in f.get('blocks',[]):
        for e in b['elems']:
            yield b,e
if __name__=='__main__':
    funcs,recs=load()
    print(len(funcs),'functions',len(recs),'records')
    c=collections.Counter()
    for f in funcs:
        for b,e in events(f):
            if e['k']=='call':
                ce=e['callee']
                if ce.get('kind') in('var',) : c[ce.get('qname')]+=1
    for k,v in c.most_common(60): print(v,k)
