import collections,re,json
from load import *
funcs,recs=load()
RMW={'fetch_add','fetch_sub','fetch_or','fetch_and','exchange','compare_exchange_strong','compare_exchange_weak'}
def find_uses(f,eid):
    uses=[]
    def walk(x,ctx):
        if isinstance(x,dict):
            if x.get('op')=='call' and x.get('eid')==eid: uses.append(ctx)
            for k,v in x.items():
                walk(v, ctx+[x.get('o')] if x.get('op') in('bin','un') else ctx)
        elif isinstance(x,list):
            for v in x: walk(v,ctx)
    for b in f['blocks']:
        t=b.get('term')
        if t and t.get('cond'): walk(t['cond'],['COND:'+t['kind']])
        for e in b['elems']:
            if e['k']=='decl':
                for v in e['vars']: walk(v.get('init'),['DECL:'+v['var']])
            elif e['k']=='assign': walk(e['rhs'],['ASSIGN:'+e['lhs']])
            elif e['k']=='ret': walk(e.get('v'),['RET'])
            elif e['k']=='call': walk(e.get('args'),['ARG:'+e['callee'].get('name','?')])
    return uses
rows=[]
for f in funcs:
    for b,e in events(f):
        if e['k']=='call' and e['callee'].get('name') in RMW and e['callee'].get('kind') in('member','dep_member'):
            base=e['callee'].get('base','')
            orders=[a.get('p') for a in e['args'] if isinstance(a,dict) and 'memory_order' in str(a.get('p'))]
            bt=e['callee'].get('basetype','')
            if e['callee'].get('kind')=='member' and 'atomic' not in bt: continue
            uses=find_uses(f,e['eid'])
            rows.append((f['loc'].replace('/repo/',''),f['name'],base.split('.')[-1],e['callee']['name'],[o.replace('#memory_order_','') for o in orders],uses[:2]))
for r in rows: print(r)
print(len(rows))
