#!/usr/bin/env python3
"""Prototype typestate engine over event-CFGs (probe for DESIGN.md; not the framework).

State (immutable, hashable):
  live : frozenset of (member, alt)      manual-lifetime members currently constructed
  vals : frozenset of (path, const)      constant-valued discriminator fields / fn-pointer fields / local bools
  guards: tuple of (var, fid, armed, scope)  scope_guards in declaration order
  term : 0/1/2                             terminal completions delivered on this path
  flags: frozenset of str                  misc ('handoff', ...)
Violations are collected in ENGINE.viol as (rule, function, line, detail).
"""
import collections, json, re, sys
from load import load, events

TERM = {'unifex::_rec_cpo::set_value': 'value', 'unifex::_rec_cpo::set_error': 'error', 'unifex::_rec_cpo::set_done': 'done'}
NOTHROW_CALLEES = {'start', 'deactivate_union_member', 'destruct', 'release', 'reset', 'set_error', 'set_done', 'get',
                   'exchange', 'move', 'forward', 'addressof', 'current_exception', 'request_stop', 'load', 'store',
                   'fetch_add', 'fetch_sub', 'fetch_or', 'fetch_and', 'compare_exchange_strong', 'compare_exchange_weak',
                   'stop_requested', 'get_stop_token', 'terminate', 'has_value', 'as_const', 'unsubscribe', 'deregister_callbacks'}

def family_of(q):
    parts = q.split('::')
    for i, p in enumerate(parts):
        if i > 0 and p.startswith('_') and p not in ('_cpo',):
            return '::'.join(parts[:i + 1])
    return '::'.join(parts[:2])

State = collections.namedtuple('State', 'live vals guards term flags')
EMPTY = State(frozenset(), frozenset(), (), 0, frozenset())

def sset(st, **kw):
    return st._replace(**kw)

class Engine:
    def __init__(self, funcs, recs, family):
        self.family = family
        self.funcs = [f for f in funcs if family_of(f.get('record') or f['qname']) == family]
        self.recs = [r for r in recs if family_of(r['qname']) == family]
        self.lambdas = {f['fid']: f for f in funcs if f.get('lambda')}
        self.by_name = collections.defaultdict(list)
        for f in self.funcs:
            if not f.get('lambda'):
                self.by_name[f['name']].append(f)
        self.fields = {}
        seen = set()
        for r in self.recs:
            if (r['qname'], r['line']) in seen: continue
            seen.add((r['qname'], r['line']))
            for fl in r['fields']:
                self.fields.setdefault(fl['name'], []).append((r, fl))
        self.ml_fields = {n for n, lst in self.fields.items() for r, fl in lst
                          if re.search(r'manual_lifetime|std::optional|_union', (fl.get('wtype') or '') + fl.get('type', '') + fl.get('ctype', ''))}
        self.viol = []
        self.handoffs = collections.defaultdict(set)   # receiver record qname -> set of states
        self.hosts = {}                                # member -> receiver record names constructed into it
        self.depth = 0
        self.trace = False

    # ------------------------------------------------------------ helpers
    def member(self, path):
        if not path: return None
        last = path.split('.')[-1]
        last = last.replace('()', '')
        return last

    def report(self, rule, f, line, detail):
        v = (rule, f['qname'], f['loc'].split(':')[0], line, detail)
        if v not in self.viol: self.viol.append(v)

    def rec_of_type(self, tstr):
        """map a (dependent) type string to a record of this family, by template/class name"""
        best = None
        for r in self.recs:
            q = r['qname']
            comps = q[len(self.family):].split('::')
            comps = [c for c in comps if c and c != 'type']
            if not comps: continue
            key = comps[-1]
            if re.search(r'\b' + re.escape(key) + r'\b', tstr):
                if best is None or len(q) > len(best['qname']): best = r
        return best

    # ------------------------------------------------------------ interpretation
    def run_function(self, f, states, aliases=None, depth=0):
        """abstractly execute f from each entry state; returns set of exit states"""
        if depth > 8: return set(states)
        blocks = {b['id']: b for b in f.get('blocks', [])}
        if not blocks: return set(states)
        tries = f.get('try', [])
        try_handlers = {}
        for b in blocks.values():
            t = b.get('term')
            if t and t['kind'] == 'CXXTryStmt':
                # associate with the try region that starts nearest after this line
                cands = [tr for tr in tries if tr['try_begin'] >= t['line']]
                if cands:
                    tr = min(cands, key=lambda x: x['try_begin'])
                    try_handlers[tr['try_begin']] = [x for x in b['succs'] if isinstance(x, int)]
        IN = collections.defaultdict(set)
        IN[f['entry']] |= set(states)
        work = [f['entry']]
        exits = set()
        aliases = dict(aliases or {})
        # local alias map (flow-insensitive): var -> member path
        for b in blocks.values():
            for e in b['elems']:
                if e['k'] == 'decl':
                    for v in e['vars']:
                        init = v.get('init')
                        if init and init.get('op') == 'call' and 'eid' in init:
                            tgt = None
                            for b2 in blocks.values():
                                for e2 in b2['elems']:
                                    if e2['k'] == 'call' and e2.get('eid') == init['eid']:
                                        n2 = e2['callee'].get('name', '')
                                        if n2.startswith('activate_union_member') and e2['args']: tgt = e2['args'][0].get('p')
                                        elif n2 in ('construct', 'construct_with', 'emplace', 'get'): tgt = e2['callee'].get('base')
                            if tgt: aliases[v['var']] = tgt; continue
                        if init and init.get('op') in ('path', 'call') and not init.get('p', '').startswith(('<', '#')) and 'scope_guard' not in (v.get('wtype') or ''):
                            aliases[v['var']] = init.get('p', '')
        steps = 0
        while work:
            steps += 1
            if steps > 4000: self.report('ENGINE', f, f['line'], 'iteration bound'); break
            bid = work.pop()
            b = blocks[bid]
            cur = set(IN[bid])
            for e in b['elems']:
                ln = e.get('line', 0)
                # exceptional fork before a may-throw call inside a try body
                if e['k'] == 'call' and self.may_throw(e):
                    for tr in tries:
                        if tr['try_begin'] <= ln <= tr['try_end'] and tr['try_begin'] in try_handlers:
                            unw = set()
                            for st in cur:
                                if ('nothrow', True) in st.vals: continue
                                unw |= self.unwind(f, st, tr, depth)
                            for hb in try_handlers[tr['try_begin']]:
                                if not unw <= IN[hb]:
                                    IN[hb] |= unw; work.append(hb)
                cur = self.step(f, e, cur, aliases, depth)
                if len(cur) > 200:
                    self.report('ENGINE', f, ln, 'state explosion'); cur = set(list(cur)[:200])
            t = b.get('term')
            succs = [x for x in b['succs']]
            if t and t['kind'] == 'CXXTryStmt':
                succs = []
            if not b['succs'] or bid == f['exit']:
                exits |= cur
            if t and t.get('cond') is not None and len(succs) == 2 and t['kind'] in ('IfStmt', 'ConditionalOperator', 'WhileStmt', 'ForStmt', 'DoStmt', 'BinaryOperator'):
                for st in cur:
                    tv = self.eval_cond(f, t, st, aliases)
                    for idx, sid in enumerate(succs):
                        if not isinstance(sid, int): continue
                        want = (idx == 0)
                        if tv is not None and tv != want: continue
                        st2 = self.assume(f, t, st, want, aliases)
                        if st2 not in IN[sid]:
                            IN[sid].add(st2); work.append(sid)
            elif t and t['kind'] == 'SwitchStmt':
                labels = t.get('cases', [])
                for st in cur:
                    val = self.lookup(st, self.canon(t['cond'].get('p', ''), aliases)) if t.get('cond') else None
                    for lab, sid in zip(labels, succs):
                        if not isinstance(sid, int): continue
                        if val is not None and lab not in ('default', '?') and lab.lstrip('#').split('::')[-1] != str(val).lstrip('#').split('::')[-1]: continue
                        if val is not None and lab in ('default', '?') and any(l.lstrip('#').split('::')[-1] == str(val).lstrip('#').split('::')[-1] for l in labels): continue
                        if st not in IN[sid]:
                            IN[sid].add(st); work.append(sid)
            else:
                for sid in succs:
                    if not isinstance(sid, int): continue
                    if not cur <= IN[sid]:
                        IN[sid] |= cur; work.append(sid)
        return exits

    def may_throw(self, e):
        ce = e['callee']
        if e.get('nothrow'): return False
        n = ce.get('name', '')
        if n in NOTHROW_CALLEES: return False
        if ce.get('kind') == 'expr' and 'exchange' in n: return False   # call through a noexcept fn-pointer field
        if ce.get('qname', '') in TERM and TERM[ce['qname']] != 'value': return False
        if ce.get('qname', '') in TERM: return False   # documented idiom: set_value throwing is reported via set_error
        return True

    def unwind(self, f, st, tr, depth):
        """run armed guards declared inside the try region (reverse order), disarm them"""
        res = {st}
        for g in reversed(st.guards):
            var, fid, armed, gl = g
            if not armed or not (tr['try_begin'] <= gl <= tr['try_end']): continue
            lam = self.lambdas.get(fid)
            nxt = set()
            for s in res:
                s = sset(s, guards=tuple(x for x in s.guards if x[0] != var))
                nxt |= self.run_function(lam, {s}, depth=depth + 1) if lam else {s}
            res = nxt
        return {sset(s, guards=tuple(x for x in s.guards if not (tr['try_begin'] <= x[3] <= tr['try_end']))) for s in res}

    def canon(self, p, aliases):
        if not p: return p
        head = p.split('.')[0]
        seen = 0
        while head in aliases and seen < 4:
            rest = p.split('.')[1:]
            p = aliases[head] + ('.' + '.'.join(rest) if rest else '')
            head = p.split('.')[0]; seen += 1
        return p

    def lookup(self, st, path):
        m = self.member(path)
        for k, v in st.vals:
            if k == m: return v
        return None

    def setval(self, st, path, val):
        m = self.member(path)
        vals = frozenset((k, v) for k, v in st.vals if k != m)
        if val is not None: vals = vals | {(m, val)}
        return sset(st, vals=vals)

    def const_of(self, x, st=None, aliases=None):
        if x is None: return None
        if x.get('op') == 'path':
            p = x['p']
            if p.startswith('#') or p.startswith('&'): return p
            if st is not None:
                return self.lookup(st, self.canon(p, aliases or {}))
            return None
        if x.get('op') == 'un' and x['o'] == '!':
            v = self.const_of(x['e'], st, aliases)
            if v in ('#true', '#false'): return '#false' if v == '#true' else '#true'
        if x.get('op') == 'un' and x['o'] == '-':
            v = self.const_of(x['e'], st, aliases)
            if v and re.match(r'#-?\d+$', v): return '#%d' % (-int(v[1:]))
        if x.get('op') == 'bin' and x['o'] in ('+', '-'):
            a, b = self.const_of(x['l'], st, aliases), self.const_of(x['r'], st, aliases)
            if a and b and re.match(r'#-?\d+$', a) and re.match(r'#-?\d+$', b):
                return '#%d' % (int(a[1:]) + int(b[1:]) if x['o'] == '+' else int(a[1:]) - int(b[1:]))
        return None

    def eval_cond(self, f, t, st, aliases):
        c = t.get('cond')
        if t.get('constexpr'):
            key = 'cx:' + re.sub(r'\s+', '', t.get('text', ''))
            for k, v in st.vals:
                if k == key: return v
            return None
        return self.eval_expr(c, st, aliases)

    def eval_expr(self, c, st, aliases):
        if c is None: return None
        op = c.get('op')
        if op == 'path':
            v = self.const_of(c, st, aliases)
            if v == '#true': return True
            if v == '#false': return False
            if v == '#null': return False
            if v and v.startswith('&'): return True
            if v and re.match(r'#-?\d+$', v): return int(v[1:]) != 0
            # manual-lifetime-ness unknown
            return None
        if op == 'un' and c['o'] == '!':
            v = self.eval_expr(c['e'], st, aliases)
            return None if v is None else (not v)
        if op == 'bin' and c['o'] in ('==', '!=', '<', '>', '<=', '>='):
            a, b = self.const_of(c['l'], st, aliases), self.const_of(c['r'], st, aliases)
            if a is None or b is None: return None
            if re.match(r'#-?\d+$', a) and re.match(r'#-?\d+$', b):
                x, y = int(a[1:]), int(b[1:])
                return {'==': x == y, '!=': x != y, '<': x < y, '>': x > y, '<=': x <= y, '>=': x >= y}[c['o']]
            an, bn = a.split('::')[-1].lstrip('#&'), b.split('::')[-1].lstrip('#&')
            if c['o'] == '==': return an == bn
            if c['o'] == '!=': return an != bn
            return None
        if op == 'bin' and c['o'] == '&&':
            a, b = self.eval_expr(c['l'], st, aliases), self.eval_expr(c['r'], st, aliases)
            if a is False or b is False: return False
            if a is True and b is True: return True
            return None
        if op == 'bin' and c['o'] == '||':
            a, b = self.eval_expr(c['l'], st, aliases), self.eval_expr(c['r'], st, aliases)
            if a is True or b is True: return True
            if a is False and b is False: return False
            return None
        return None

    def assume(self, f, t, st, want, aliases):
        c = t.get('cond')
        if t.get('constexpr'):
            text = re.sub(r'\s+', '', t.get('text', ''))
            st = sset(st, vals=st.vals | {('cx:' + text, want)})
            # nothrow idiom: the branch in which everything is nothrow suppresses exceptional forks
            if re.search(r'nothrow|noexcept', text):
                neg = text.startswith('!')
                all_nothrow = (want and not neg) or ((not want) and neg)
                st = self.setval(st, 'nothrow', True if all_nothrow else None)
            return st
        # learn simple facts: (path == const), path, !path
        def learn(c, want, st):
            if c is None: return st
            if c.get('op') == 'path' and not c['p'].startswith('#'):
                p = self.canon(c['p'], aliases)
                if self.lookup(st, p) is None and '(' not in p:
                    return self.setval(st, p, '#true' if want else '#false')
            if c.get('op') == 'un' and c['o'] == '!':
                return learn(c['e'], not want, st)
            if c.get('op') == 'bin' and c['o'] == '==' and want:
                a, b = c['l'], c['r']
                cb = self.const_of(b)
                if a.get('op') == 'path' and cb and '(' not in a['p']:
                    return self.setval(st, self.canon(a['p'], aliases), cb)
            if c.get('op') == 'bin' and c['o'] == '&&' and want:
                return learn(c['r'], True, learn(c['l'], True, st))
            if c.get('op') == 'bin' and c['o'] == '||' and not want:
                return learn(c['r'], False, learn(c['l'], False, st))
            return st
        return learn(c, want, st)

    # ------------------------------------------------------------ events
    def step(self, f, e, states, aliases, depth):
        k = e['k']
        out = set()
        if k == 'decl':
            for st in states:
                for v in e['vars']:
                    wt = (v.get('wtype') or '') + ' ' + v.get('type', '')
                    init = v.get('init')
                    if 'scope_guard' in wt:
                        fid = None
                        for l in self._pending_lams(e, f):
                            fid = l
                        st = sset(st, guards=st.guards + ((v['var'], fid, True, e['line']),))
                    elif init is not None:
                        c = self.const_of(init, st, aliases)
                        if c is not None and v.get('type', '') in ('bool', 'const bool'):
                            st = self.setval(st, v['var'], c)
                        else:
                            bv = self.eval_expr(init, st, aliases) if v.get('type', '') in ('bool', 'const bool') else None
                            st = self.setval(st, v['var'], None if bv is None else ('#true' if bv else '#false'))
                out.add(st)
            return out
        if k == 'lambda':
            f.setdefault('_lam_by_line', {})[e['line']] = e['fid']
            return states
        if k == 'assign':
            for st in states:
                lhs = self.canon(e['lhs'], aliases)
                c = self.const_of(e['rhs'], st, aliases)
                out.add(self.setval(st, lhs, c))
            return out
        if k == 'init':
            for st in states:
                if e.get('field'):
                    c = self.const_of(e['v'], st, aliases)
                    st = self.setval(st, e['field'], c)
                out.add(st)
            return out
        if k == 'scope_end':
            # run armed guards whose scope ends here: approximated by guards declared after the scope's first variable
            for st in states:
                out |= self.end_scope(f, st, e['var'], depth)
            return out
        if k == 'ret':
            return states
        if k != 'call':
            return states
        ce = e['callee']; name = ce.get('name', ''); q = ce.get('qname', '')
        args = e.get('args', [])
        a0 = self.canon(args[0].get('p', ''), aliases) if args and isinstance(args[0], dict) else ''
        base = self.canon(ce.get('base', ''), aliases)
        lams = self._lams_in(e, f)
        for st in states:
            res = {st}
            # ---- terminal completions
            if q in TERM or (ce.get('kind') in ('localvar',) and re.search(r'receiver_?$|rec_$', a0)):
                ch = TERM.get(q, 'any')
                st2 = sset(st, term=min(st.term + 1, 2))
                if st.term >= 1:
                    self.report('SIG-ATMOST1', f, e['line'], 'second completion (%s) on a path' % ch)
                self.at_terminal(f, e, st2)
                res = {st2}
            # ---- manual lifetime
            elif name in ('activate_union_member', 'activate_union_member_with') or (name in ('construct', 'construct_with', 'emplace') and self.member(base) in self.ml_fields):
                m = self.member(a0 if name.startswith('activate') else base)
                alt = ','.join(e.get('targs', [])[:1])
                cur = {st}
                for fid in lams:   # factory lambda runs first (may throw -> nothing constructed)
                    nxt = set()
                    for s in cur: nxt |= self.run_function(self.lambdas[fid], {s}, depth=depth + 1)
                    cur = nxt
                    self.note_hosts(m, self.lambdas[fid])
                res = set()
                for s in cur:
                    if any(mm == m for mm, al in s.live):
                        self.report('MLT-DOUBLE-CONSTRUCT', f, e['line'], '%s constructed while already live' % m)
                    shares = self.union_mates(m)
                    for mm, al in s.live:
                        if mm in shares and mm != m:
                            self.report('MLT-UNION-OVERLAP', f, e['line'], '%s activated while union mate %s is live' % (m, mm))
                    res.add(sset(s, live=s.live | {(m, alt)}))
            elif name in ('deactivate_union_member', 'destruct') or (name == 'reset' and self.member(base) in self.ml_fields):
                m = self.member(a0 if name == 'deactivate_union_member' else base)
                alt = ','.join(e.get('targs', [])[:1])
                if m in self.ml_fields or name == 'deactivate_union_member':
                    hit = [(mm, al) for mm, al in st.live if mm == m]
                    if not hit:
                        self.report('MLT-DESTRUCT-DEAD', f, e['line'], '%s destructed but not live on this path (live=%s)' % (m, sorted(x[0] for x in st.live)))
                    elif alt and hit[0][1] and alt != hit[0][1]:
                        self.report('MLT-WRONG-ALT', f, e['line'], '%s destructed as <%s> but constructed as <%s>' % (m, alt, hit[0][1]))
                    res = {sset(st, live=frozenset(x for x in st.live if x[0] != m))}
            # ---- scope guards
            elif name == 'release' and any(g[0] == base for g in st.guards):
                res = {sset(st, guards=tuple((v, fid, False if v == base else a, l) for v, fid, a, l in st.guards))}
            elif name == 'reset' and any(g[0] == base for g in st.guards):
                res = set()
                g = [x for x in st.guards if x[0] == base][0]
                s2 = sset(st, guards=tuple((v, fid, False if v == base else a, l) for v, fid, a, l in st.guards))
                res |= self.run_function(self.lambdas[g[1]], {s2}, depth=depth + 1) if g[2] and g[1] in self.lambdas else {s2}
            # ---- child start: synchronous completion or later
            elif q == 'unifex::start':
                res = self.do_start(f, e, st, a0, aliases, depth)
            # ---- immediately-invoked lambda expression
            elif ce.get('kind') == 'expr' and str(ce.get('name', '')).startswith('<lambda@') and lams:
                cur = {st}
                for fid in lams:
                    nxt = set()
                    for s in cur: nxt |= self.run_function(self.lambdas[fid], {sset(s, guards=())}, depth=depth + 1)
                    cur = {sset(s, guards=st.guards) for s in nxt}
                res = cur
            # ---- std::exchange(x.cleanup_, nullptr)(&op)  /  indirect call through a fn-pointer field
            elif ce.get('kind') == 'expr' or (ce.get('kind') in ('member', 'dep_member') and self.lookup(st, base + '.' + name if base else name) and re.match(r'[&#][A-Za-z_]', str(self.lookup(st, base + '.' + name))) and self.member(name) not in self.by_name):
                res = self.indirect_call(f, e, st, aliases, depth)
            else:
                # immediately-invoked lambdas (visit/apply/invoke/call of a local lambda)
                if lams and re.search(r'(visit|apply|invoke|call_once|for_each|transform)$', q or name):
                    cur = {st}
                    for fid in lams:
                        nxt = set()
                        for s in cur: nxt |= self.run_function(self.lambdas[fid], {s}, depth=depth + 1)
                        cur = nxt
                    res = cur
                else:
                    cands = self.resolve(f, e, base)
                    if cands:
                        res = set()
                        for g in cands:
                            # bind lambda arguments: if callee invokes a parameter, run our lambda (e.g. complete(func))
                            res |= self.call_family(f, g, e, st, lams, depth)
            out |= res
        return out

    def _lams_in(self, e, f):
        txt = json.dumps(e.get('args', [])) + json.dumps(e['callee'])
        return [fid for ln, fid in f.get('_lam_by_line', {}).items() if ('<lambda@%d>' % ln) in txt]

    def _pending_lams(self, e, f):
        txt = json.dumps(e)
        return [fid for ln, fid in f.get('_lam_by_line', {}).items() if ('<lambda@%d>' % ln) in txt]

    def union_mates(self, m):
        res = set()
        for r, fl in self.fields.get(m, []):
            u = fl.get('union')
            if u:
                for fl2 in r['fields']:
                    if fl2.get('union') == u: res.add(fl2['name'])
        return res

    def note_hosts(self, m, lam):
        for b, e in events(lam):
            if e['k'] in ('construct', 'initlist'):
                r = self.rec_of_type(e.get('type', ''))
                if r: self.hosts.setdefault(m, set()).add(r['qname'])

    def end_scope(self, f, st, var, depth):
        # guards declared at or after `var` (the first variable of the scope) die here
        names = [g[0] for g in st.guards]
        if var in names:
            idx = names.index(var)
        else:
            # scope's first var is not a guard: guards declared after that variable's line die
            idx = None
            for i, g in enumerate(st.guards):
                if g[3] >= f.get('_varline', {}).get(var, 10 ** 9): idx = i; break
            if idx is None: return {st}
        dying = st.guards[idx:]
        res = {sset(st, guards=st.guards[:idx])}
        for g in reversed(dying):
            if g[2] and g[1] in self.lambdas:
                nxt = set()
                for s in res: nxt |= self.run_function(self.lambdas[g[1]], {s}, depth=depth + 1)
                res = nxt
        return res

    def resolve(self, f, e, base):
        ce = e['callee']; k = ce.get('kind'); name = ce.get('name')
        if name in NOTHROW_CALLEES and name not in ('start',): return []
        if k in ('member', 'dep_member'):
            if re.search(r'(receiver_?|rec_|receiver\(\))$', base): return []
            cands = [g for g in self.by_name.get(name, [])]
            # prefer same record for this-calls
            if base == 'this':
                same = [g for g in cands if g.get('record') == f.get('record')]
                if same: cands = same
            return cands
        if k in ('func', 'unresolved', 'dep_scope', 'decl'):
            return [g for g in self.by_name.get(name, [])]
        return []

    def call_family(self, f, g, e, st, lams, depth):
        self.depth += 1
        try:
            if self.depth > 12: return {st}
            # save caller guards; callee runs with no guards of its own
            saved = st.guards
            exits = self.run_function(g, {sset(st, guards=())}, depth=depth + 1)
            res = set()
            for s in exits:
                # a lambda passed to the callee is invoked once by it (complete(func) idiom)
                cur = {s}
                if lams and any(p['name'] and self._calls_param(g, p['name']) for p in g.get('params', [])):
                    for fid in lams:
                        nxt = set()
                        for s2 in cur: nxt |= self.run_function(self.lambdas[fid], {s2}, depth=depth + 1)
                        cur = nxt
                for s2 in cur: res.add(sset(s2, guards=saved))
            return res
        finally:
            self.depth -= 1

    def _calls_param(self, g, pname):
        for b, e in events(g):
            if e['k'] == 'call' and e['callee'].get('kind') == 'localvar' and e['callee'].get('name') == pname: return True
        return False

    def indirect_call(self, f, e, st, aliases, depth):
        ce = e['callee']
        txt = ce.get('name', '')
        # std::exchange(op.cleanup_, nullptr)(&op): callee expr is exchange(...)()
        m = re.search(r'exchange\(\)', txt)
        target = None
        if ce.get('kind') == 'expr' and 'exchange' in txt:
            prev = None
            for b in f['blocks']:
                for e2 in b['elems']:
                    if e2 is e: break
                    if e2['k'] == 'call' and e2['callee'].get('name') == 'exchange' and e2['line'] == e['line']: prev = e2
            if prev is not None:
                key = self.member(self.canon(prev['args'][0].get('p', ''), aliases))
                v = self.lookup(st, key)
                if v: target = (key, v)
        if ce.get('kind') == 'expr' and target is None:
            # find the exchange call among earlier events: heuristic on field names holding &function
            for kname, v in st.vals:
                if isinstance(v, str) and v.startswith('&') and kname in txt:
                    target = (kname, v)
            if target is None:
                for kname, v in st.vals:
                    if isinstance(v, str) and v.startswith('&') and kname.endswith('_') and kname in json.dumps(e):
                        target = (kname, v)
        else:
            key = self.member((self.canon(ce.get('base', ''), aliases) + '.' + ce.get('name')) if ce.get('base') else ce.get('name'))
            v = self.lookup(st, key)
            if v: target = (key, v)
        if not target:
            return {st}
        fname = target[1].lstrip('&#').split('::')[-1]
        if fname == 'null':
            self.report('MLT-NULL-CLEANUP', f, e['line'], 'call through null function pointer %s' % target[0]); return {st}
        cands = self.by_name.get(fname, [])
        res = set()
        st2 = st
        if 'exchange' in txt: st2 = self.setval(st, target[0], '#null')
        for g in cands:
            res |= self.call_family(f, g, e, st2, [], depth)
        return res or {st2}

    def do_start(self, f, e, st, a0, aliases, depth):
        m = self.member(a0.replace('.get()', ''))
        hosts = self.hosts.get(m, set())
        res = {sset(st, flags=st.flags | {'handoff'})}   # completes later
        for rq in hosts:
            self.handoffs[rq].add(sset(st, guards=(), flags=frozenset()))
            # synchronous completion inside start(): run each handler inline
            for g in self.funcs:
                if g.get('record') == rq and g['name'] in ('set_value', 'set_error', 'set_done') and not g.get('lambda'):
                    if self.depth > 6: continue
                    self.depth += 1
                    ex = self.run_function(g, {sset(st, guards=())}, depth=depth + 1)
                    self.depth -= 1
                    for s in ex:
                        res.add(sset(s, guards=st.guards, flags=s.flags | {'handoff', 'sync'}))
        return res

    def at_terminal(self, f, e, st):
        """obligations when the outer receiver is completed: the op may be destroyed right after"""
        self.terminals = getattr(self, 'terminals', [])
        self.terminals.append((f, e['line'], st))

def check_destructor_closure(E, dtor, f, line, st):
    """run the op's destructor from the state at a terminal: everything live must die exactly once"""
    ex = E.run_function(dtor, {sset(st, guards=(), term=0)})
    for s in ex:
        if s.live:
            E.report('MLT-LEAK-AT-COMPLETION', f, line, 'live after op destructor: %s' % sorted(x[0] for x in s.live))

def analyse_family(funcs, recs, family, verbose=False):
    E = Engine(funcs, recs, family)
    E.terminals = []
    # op records: those with a start() method and a constructor
    ops = collections.defaultdict(dict)
    for f in E.funcs:
        if f.get('lambda') or not f.get('record'): continue
        if f.get('ctor'): ops[f['record']].setdefault('ctors', []).append(f)
        if f.get('dtor'): ops[f['record']]['dtor'] = f
        if f['name'] == 'start' or (f['name'] == 'tag_invoke' and 'start' in json.dumps(f.get('params', []))): ops[f['record']]['start'] = f
    results = {}
    for rq, d in ops.items():
        if 'start' not in d or not d.get('ctors'): continue
        init = set()
        nsdmi = set()
        for r in E.recs:
            if r['qname'] == rq:
                for fl in r['fields']:
                    if fl.get('has_init') and fl.get('init') and (fl['init'].startswith('#') or fl['init'].startswith('&')):
                        nsdmi.add((fl['name'], fl['init']))
        for c in d['ctors']:
            init |= E.run_function(c, {sset(EMPTY, vals=frozenset(nsdmi))})
        init = {sset(s, guards=(), term=0, flags=frozenset()) for s in init}
        nviol0 = len(E.viol)
        # never-started destruction
        if 'dtor' in d:
            for s in init:
                for s2 in E.run_function(d['dtor'], {s}):
                    if s2.live: E.report('MLT-LEAK-UNSTARTED', d['dtor'], d['dtor']['line'], 'live after destructor of never-started op: %s' % sorted(x[0] for x in s2.live))
        elif any(s.live for s in init):
            E.report('MLT-LEAK-UNSTARTED', d['ctors'][0], d['ctors'][0]['line'], 'no destructor but constructor leaves %s live' % sorted(x[0] for s in init for x in s.live))
        E.terminals = []
        ex = E.run_function(d['start'], init)
        # deferred completions: handlers from hand-off states (fixpoint over newly discovered hand-offs)
        done = set()
        for _ in range(6):
            todo = [(r, s) for r, ss in E.handoffs.items() for s in ss if (r, s) not in done]
            if not todo: break
            for r, s in todo:
                done.add((r, s))
                for g in E.funcs:
                    if g.get('record') == r and g['name'] in ('set_value', 'set_error', 'set_done') and not g.get('lambda'):
                        E.run_function(g, {s})
        # destructor closure at every terminal
        for (f, line, st) in list(E.terminals):
            if 'dtor' in d:
                check_destructor_closure(E, d['dtor'], f, line, st)
            elif st.live:
                E.report('MLT-LEAK-AT-COMPLETION', f, line, 'no destructor; live at completion: %s' % sorted(x[0] for x in st.live))
        results[rq] = dict(init=len(init), terminals=len(E.terminals), handoffs={k: len(v) for k, v in E.handoffs.items()}, hosts={k: sorted(v) for k, v in E.hosts.items()})
    return E, results

if __name__ == '__main__':
    funcs, recs = load()
    fams = sys.argv[1:] or ['unifex::_seq']
    for fam in fams:
        E, res = analyse_family(funcs, recs, fam)
        print('==', fam)
        for rq, r in res.items():
            print('  op', rq.replace('unifex::', ''), json.dumps(r)[:400])
        for v in E.viol:
            print('  VIOL', v)
