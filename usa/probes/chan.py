import collections,re,json
from load import *
from sig import family_of,TERM
funcs,recs=load()
# channel matrix: for each receiver-like record: handler -> multiset of terminal channels directly in body (+lambdas inside)
lam_parent=collections.defaultdict(list)
for f in funcs:
    if f.get('lambda'): lam_parent[f['parent_fn']].append(f)
def direct(f):
    out=[]
    for b,e in events(f):
        if e['k']=='call':
            q=e['callee'].get('qname','')
            if q in TERM: out.append(TERM[q])
            elif q=='unifex::start': out.append('START')
            elif e['callee'].get('kind') in('member','dep_member') and e['callee'].get('name') not in('construct','construct_with','destruct','get','emplace','reset','value','has_value'): 
                base=e['callee'].get('base','')
                if base.split('.')[0] in('this','op','op_','self') and not re.search(r'receiver_?$|rec_$',base): out.append('→'+e['callee']['name'])
    for l in lam_parent.get(f['qname']+'@%d'%f['line'],[]): out+=direct(l)
    return out
byrec=collections.defaultdict(dict)
for f in funcs:
    if f.get('record') and f['name'] in('set_value','set_error','set_done','set_next') and not f.get('lambda'):
        byrec[(f['_src'],f['record'])].setdefault(f['name'],[]).append(sorted(set(direct(f))))
for (src,rec),hs in sorted(byrec.items()):
    print(rec.replace('unifex::',''))
    for h in('set_value','set_error','set_done','set_next'):
        if h in hs: print('    %-10s %s'%(h,hs[h]))
