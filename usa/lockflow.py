"""Lock-held dataflow over the event graph of one function.

State at a node = set of frozensets of held lock names (one frozenset per distinct path history), so
"held on every path" and "held on some path" are both available.  The transfer is pluggable:

  spec.acquire(e)        -> lock name when event e acquires unconditionally
  spec.release(e)        -> lock name (or '*' = all) when e releases
  spec.try_acquire(e)    -> lock name when the *call result* tells whether the lock was taken
                            (held only on the branch where the result is true)
RAII (std::unique_lock/lock_guard/scoped_lock locals) is built in: the declaration acquires unless
try_to_lock/defer_lock, `.unlock()`/`.lock()` on the local release/acquire, scope end releases;
`if (lk)` / `lk.owns_lock()` refine a try_to_lock.
"""
import collections, json, re

from .facts import expr_eids

RAII_RE = re.compile(r'\b(unique_lock|lock_guard|scoped_lock)\b')


class Spec:
    def acquire(self, e): return None
    def release(self, e): return None
    def try_acquire(self, e): return None


def _truth_of_call(cond, eid, pol=True):
    """polarity with which call `eid` appears in cond when cond is (!)*call; None if not of that shape"""
    if not isinstance(cond, dict): return None
    if cond.get('op') == 'call' and cond.get('eid') == eid: return pol
    if cond.get('op') == 'un' and cond.get('o') == '!': return _truth_of_call(cond.get('e'), eid, not pol)
    return None


def _truth_of_path(cond, pred, pol=True):
    if not isinstance(cond, dict): return None
    if cond.get('op') in ('path', 'call') and pred(cond.get('p', '')): return pol
    if cond.get('op') == 'un' and cond.get('o') == '!': return _truth_of_path(cond.get('e'), pred, not pol)
    return None


def analyse(G, spec, entry_held=()):
    """returns {node: set(frozenset(held))} = states *before* executing the node"""
    IN = collections.defaultdict(set)
    if G.entry is None: return IN
    IN[G.entry].add(frozenset(entry_held))
    work = [G.entry]
    raii = {}        # local var -> lock name
    raii_line = {}   # lock name -> declaration line (to release RAII locks when unwinding out of their try block)
    pending_try = {}  # eid -> lock name (try-acquire whose result is branched on later)
    maybe = {}       # raii var declared with try_to_lock -> lock name
    steps = 0
    while work:
        steps += 1
        if steps > 200000: raise RuntimeError('lockflow did not converge in ' + G.f['qname'])
        n = work.pop()
        e = G.ev[n]
        for st in list(IN[n]):
            outs = []   # (successor filter label or None, state)
            k = e.get('k')
            held = set(st)
            if k == 'decl':
                for v in e['vars']:
                    t = (v.get('type') or '') + ' ' + (v.get('wtype') or '')
                    if RAII_RE.search(t):
                        name = 'raii:' + v['var']
                        raii[v['var']] = name
                        raii_line[name] = e.get('line') or 0
                        init = json.dumps(v.get('init'))
                        if 'try_to_lock' in init: maybe[v['var']] = name; held.add(name + '?')
                        elif 'defer_lock' in init: pass
                        else: held.add(name)
            elif k == 'call':
                ce = e['callee']; nm = ce.get('name'); base = ce.get('base', '')
                if base in raii and nm == 'unlock': held.discard(raii[base]); held.discard(raii[base] + '?')
                elif base in raii and nm == 'lock': held.add(raii[base])
                else:
                    a = spec.acquire(e)
                    if a: held.add(a)
                    r = spec.release(e)
                    if r == '*': held.clear()
                    elif r: held.discard(r)
                    t = spec.try_acquire(e)
                    if t: pending_try[e['eid']] = t
            elif k in ('scope_end', 'autodtor'):
                v = e.get('var')
                if v in raii: held.discard(raii[v]); held.discard(raii[v] + '?')
            if k == 'term' and e.get('cond') is not None:
                cond = e['cond']
                for m, lab in G.succ.get(n, []):
                    h2 = set(held)
                    if lab in (True, False):
                        for eid, lk in pending_try.items():
                            pol = _truth_of_call(cond, eid)
                            if pol is not None and (pol == lab): h2.add(lk)
                        for v, lk in maybe.items():
                            pol = _truth_of_path(cond, lambda p: p == v or p == v + '.owns_lock()')
                            if pol is not None:
                                h2.discard(lk + '?')
                                if pol == lab: h2.add(lk)
                    outs.append((m, frozenset(h2)))
            else:
                for m, lab in G.succ.get(n, []):
                    if lab == 'exc':
                        # unwinding to a handler destroys the RAII locks declared inside the try block
                        ln = e.get('line') or 0
                        inner = [tr for tr in G.f.get('try', []) if tr['try_begin'] <= ln <= tr['try_end']]
                        h2 = set(st)     # state *before* the throwing call took effect
                        if inner:
                            tr = max(inner, key=lambda x: x['try_begin'])
                            h2 = {l for l in h2 if not (l.rstrip('?') in raii_line and tr['try_begin'] <= raii_line[l.rstrip('?')] <= tr['try_end'])}
                        outs.append((m, frozenset(h2)))
                    else:
                        outs.append((m, frozenset(held)))
            for m, s2 in outs:
                if s2 not in IN[m]:
                    IN[m].add(s2); work.append(m)
    return IN


def held_always(IN, node, lock):
    ss = IN.get(node)
    return bool(ss) and all(lock in s for s in ss)


def held_never(IN, node, lock):
    ss = IN.get(node)
    return not ss or all(lock not in s and (lock + '?') not in s for s in ss)


def any_held(IN, node):
    ss = IN.get(node) or []
    return any(s for s in ss)


def any_held_all(IN, node):
    """some lock is held on every path reaching node"""
    ss = IN.get(node)
    return bool(ss) and all(any(not l.endswith('?') for l in s) for s in ss)
