"""Check runner plumbing: rule registry, verdict collection, evidence, known findings, exit codes.

Exit codes of a check:  0 held (KNOWN-FINDING lines allowed) | 1 VIOLATION line(s) | 2 analysis broken
(a rule could not find the construct it reasons about, an instance floor was not met, a unit failed to
parse).  Analysis-broken is never reported as held or as violated.
"""
import collections, hashlib, json, os, sys, time

VERIF = os.path.dirname(os.path.dirname(os.path.abspath(__file__)))
RULES = collections.OrderedDict()   # rule id -> (fn, props, doc, floor)


def rule(rid, props, floor=1, configs=None, cross=False):
    """register a rule.  floor = minimum number of instances it must evaluate (per configuration in
    which it applies) — a rule matching fewer is analysis-broken, never a vacuous pass.
    configs: restrict to configurations (e.g. only c++20 ones) or None for all."""
    def deco(fn):
        RULES[rid] = dict(fn=fn, props=props, doc=(fn.__doc__ or '').strip(), floor=floor, configs=configs, id=rid, cross=cross)
        return fn
    return deco


class Broken(Exception):
    pass


class Run:
    def __init__(self, prop, tier, seed):
        self.prop, self.tier, self.seed = prop, tier, seed
        self.instances = []        # dicts: rule, config, site, detail, nontrivial
        self.violations = collections.OrderedDict()   # key -> dict
        self.broken = []
        self.cur_rule = None
        self.cur_cfg = None
        self.counts = collections.Counter()
        self.nontrivial = set()
        self.stats = {}
        self.log = None            # when set: list receiving ('inst'|'viol'|'broke', kwargs) for the result cache
        self.scope = None          # when set: only constructs located in these files are kept (rule run outside its own properties)

    # -- called by rules
    def inst(self, site, detail='', nontrivial=True, key=None):
        """record one evaluated obligation (rule instance)"""
        if self.log is not None: self.log.append(('inst', dict(site=site, detail=detail, nontrivial=nontrivial, key=_jsonable(key))))
        if self.scope is not None and _file_of(site) not in self.scope: return
        self.counts[(self.cur_rule, self.cur_cfg)] += 1
        k = (self.cur_rule, key or site)
        if nontrivial: self.nontrivial.add(k)
        if len(self.instances) < 4000:
            self.instances.append(dict(rule=self.cur_rule, config=self.cur_cfg, site=site, detail=detail))

    def violation(self, func, key, loc, msg, path=None, prop=None):
        """func: qualified name of the function (or record) the report is about; key: the construct
        (member, callee, ...) — (rule, func, key) identifies the finding independent of line numbers"""
        if self.log is not None: self.log.append(('viol', dict(func=func, key=key, loc=loc, msg=msg, path=path, prop=prop, cfg=self.cur_cfg)))
        if self.scope is not None and _file_of(loc) not in self.scope: return
        vid = (self.cur_rule, func, key)
        v = self.violations.get(vid)
        if v is None:
            v = dict(rule=self.cur_rule, function=func, key=key, loc=loc, message=msg, path=path or [], configs=[],
                     property=self.prop, owner_property=prop or self.prop)
            self.violations[vid] = v
        if self.cur_cfg not in v['configs']: v['configs'].append(self.cur_cfg)

    def broke(self, msg):
        if self.log is not None: self.log.append(('broke', dict(msg=msg)))
        if self.scope is not None: return          # a rule borrowed from another property never breaks this check
        m = '%s[%s]: %s' % (self.cur_rule, self.cur_cfg, msg)
        if m not in self.broken: self.broken.append(m)


def _jsonable(k):
    if isinstance(k, (list, tuple)): return [_jsonable(x) for x in k]
    return k if isinstance(k, (str, int, float, bool)) or k is None else str(k)


def _tuplify(k):
    return tuple(_tuplify(x) for x in k) if isinstance(k, list) else k


def _file_of(s):
    """repo-relative file of a site / loc string ('include/unifex/x.hpp:12 ...', 'x.hpp ...')"""
    s = (s or '').split(' ')[0]
    s = s.rsplit(':', 1)[0] if ':' in s else s
    i = s.find('include/unifex/')
    if i < 0: i = s.find('source/')
    return s[i:] if i >= 0 else s


def replay(run, log):
    for kind, kw in log:
        if kind == 'inst': run.inst(kw['site'], kw['detail'], kw['nontrivial'], _tuplify(kw['key']) if kw['key'] is not None else None)
        elif kind == 'viol':
            keep = run.cur_cfg
            if kw.get('cfg'): run.cur_cfg = kw['cfg']          # cross-configuration rules switch the label while they run
            run.violation(kw['func'], kw['key'], kw['loc'], kw['msg'], kw['path'], kw['prop'])
            run.cur_cfg = keep
        elif kind == 'broke': run.broke(kw['msg'])


def site(f, line=None):
    return '%s:%s %s' % (f.get('file') or f.get('loc', '?').rsplit(':', 1)[0], line if line is not None else f.get('line'), f['qname'])


def load_known():
    p = os.path.join(VERIF, 'known_findings.json')
    if not os.path.exists(p): return []
    with open(p) as fh: return json.load(fh).get('findings', [])


def match_known(v, known):
    for k in known:
        if k.get('status') != 'known': continue        # 'fixed' entries suppress nothing
        if k['rule'] == v['rule'] and k['function'] == v['function'] and k['key'] == v['key']:
            return k
    return None


def finish(run, t0, facts_meta, explanation, assumptions, write=True):
    """print verdict lines, write evidence and replay files, return exit code"""
    known = load_known()
    os.makedirs(os.path.join(VERIF, 'evidence'), exist_ok=True)
    rdir = os.path.join(VERIF, 'out', 'replay')
    os.makedirs(rdir, exist_ok=True)
    new, kn = [], []
    for v in run.violations.values():
        k = match_known(v, known)
        (kn if k else new).append((v, k))
    code = 0
    for v, k in kn:
        print('KNOWN-FINDING: property=%s %s: %s [%s %s key=%s]' % (v['property'], k.get('what', v['message']), v['loc'], v['rule'], v['function'], v['key']))
    if run.broken:
        code = 2
        for b in run.broken: print('ANALYSIS-BROKEN property=%s %s' % (run.prop, b))
    replays = []
    for v, _ in new:
        h = hashlib.sha1(json.dumps([v['rule'], v['function'], v['key']]).encode()).hexdigest()[:10]
        rp = os.path.join(rdir, '%s-%s-%s.json' % (v['property'], v['rule'], h))
        if write:
            with open(rp, 'w') as fh: json.dump(dict(v, tier=run.tier), fh, indent=1)
        replays.append(rp)
        print('VIOLATION property=%s replay=%s' % (v['property'], rp))
        print('  %s %s: %s (%s, key=%s, configs=%s)' % (v['rule'], v['loc'], v['message'], v['function'], v['key'], ','.join(v['configs'])))
        for step in v['path'][:12]: print('      ' + str(step))
        code = 1        # a definite violation takes precedence over analysis-broken rules (their lines are printed as well)
    per_rule = collections.Counter()
    for (r, c), n in run.counts.items(): per_rule[r] += n
    samples = []
    seen_rules = set()
    for i in run.instances:
        if i['rule'] not in seen_rules or len(samples) < 12:
            if sum(1 for s in samples if s['rule'] == i['rule']) < 3:
                samples.append(i); seen_rules.add(i['rule'])
    ev = dict(
        property_id=run.prop, tier=run.tier, seed=run.seed, level='other',
        coverage=dict(
            explanation=explanation,
            evaluations=sum(run.counts.values()),
            distinct_nontrivial=len(run.nontrivial),
            rule='one evaluation = one rule instance (rule x construct x configuration) decided on the extracted '
                 'event CFG of /repo\'s working tree; distinct = distinct (rule, construct) pairs across configurations; '
                 'non-trivial = the construct contained at least one event the rule reasons about',
            samples=samples[:40],
            rules={r: n for r, n in sorted(per_rule.items())},
            rule_docs={r: RULES[r]['doc'] for r in per_rule if r in RULES},
            floors={r: RULES[r]['floor'] for r in per_rule if r in RULES},
            configs=facts_meta.get('configs'), units=facts_meta.get('units'), functions=facts_meta.get('functions'),
            records=facts_meta.get('records'), facts_digest=facts_meta.get('digest'),
            exhaustive=True,
            known_findings=[dict(rule=v['rule'], function=v['function'], key=v['key'], loc=v['loc']) for v, _ in kn],
            violations_reported=[dict(rule=v['rule'], function=v['function'], key=v['key'], loc=v['loc'], message=v['message']) for v, _ in new],
            analysis_broken=run.broken,
            **run.stats),
        assumptions=assumptions,
        wall_s=round(time.time() - t0, 2),
        violations=len(new))
    if write:
        with open(os.path.join(VERIF, 'evidence', run.prop + '.json'), 'w') as fh:
            json.dump(ev, fh, indent=1)
    if code == 0:
        print('OK property=%s tier=%s rules=%d instances=%d distinct=%d known=%d wall=%.1fs' % (
            run.prop, run.tier, len(per_rule), sum(run.counts.values()), len(run.nontrivial), len(kn), time.time() - t0))
    return code
