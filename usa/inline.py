"""Inlined supergraph: the event graph of a root function with family-internal callees spliced in
(context-sensitive cloning, bounded depth, recursion cut).  Used by the interprocedural must/may
rules (deregistration before completion, silent paths, terminals per path).

Node ids are integers; `ev[n]` is the event dict, `fn[n]` the function it belongs to, `gn[n]` the
node in that function's Graph.  A spliced call contributes:  call-node -> callee entry ... callee
exit -> return-node -> successors of the call-node.  Calls that are not resolved stay ordinary
event nodes.
"""
import collections, re

from .facts import Graph, TERMQ, family_of, last_field, guard_vars

HIGHER_ORDER = {'visit', 'apply', 'invoke', 'construct_with', 'activate_union_member_with', 'call_once', 'emplace_with',
                'with_exception_handling', 'try_catch'}
HANDLERS = {'set_value', 'set_error', 'set_done', 'set_next'}
NEVER_INLINE = {'destruct', 'construct', 'get', 'request_stop', 'get_token', 'stop_requested', 'load', 'store', 'exchange',
                'reset', 'emplace', 'release', 'has_value', 'value', 'lock', 'unlock', 'get_stop_token'}


def _const_truth(v):
    """truth value of a constant return expression, None when not a constant"""
    if not isinstance(v, dict): return None
    p = v.get('p') if v.get('op') == 'path' else None
    if p in ('#null', '#false', '#0'): return False
    if p == '#true': return True
    if isinstance(p, str) and re.match(r'#-?\d+$', p): return int(p[1:]) != 0
    return None


def _pol_call_or_var(c, eid, var, pol=True):
    if not isinstance(c, dict): return None
    if c.get('op') == 'call' and c.get('eid') == eid: return pol
    if c.get('op') == 'path' and var is not None and c.get('p') == var: return pol
    if c.get('op') == 'un' and c.get('o') == '!': return _pol_call_or_var(c.get('e'), eid, var, not pol)
    if c.get('op') == 'bin' and c.get('o') in ('!=', '==') :
        l, r = c.get('l') or {}, c.get('r') or {}
        for a, b in ((l, r), (r, l)):
            if b.get('p') in ('#null', '#false', '#0'):
                inner = _pol_call_or_var(a, eid, var, pol)
                if inner is not None: return inner if c['o'] == '!=' else (not inner)
    return None


class TooBig(Exception):
    pass


class Super:
    def __init__(self, F, root, families=None, maxdepth=7, maxnodes=60000, graph_cache=None):
        import os
        if os.environ.get('USA_TIER') == 'thorough':
            # thorough tier: deeper splicing of family-internal callees and a larger node budget
            if maxdepth == 7: maxdepth = 10
            if maxnodes == 60000: maxnodes = 200000
        self.F = F
        self.root = root
        self.families = set(families or [root['_family']])
        self.maxdepth, self.maxnodes = maxdepth, maxnodes
        self.ev, self.fn, self.gn = [], [], []
        self.succ = collections.defaultdict(list)
        self.gcache = graph_cache if graph_cache is not None else {}
        self.unresolved = []          # (fn, event) dependent member calls we could not resolve
        self.inlined = collections.Counter()
        self.entry, self.exits = self._inline(root, (self._key(root),), {}, 0)
        self.pred = collections.defaultdict(list)
        for a, lst in self.succ.items():
            for b, lab in lst: self.pred[b].append((a, lab))

    # ------------------------------------------------------------------ construction
    def _key(self, f):
        return (f['qname'], f['loc'], f.get('fid'))

    def graph(self, f):
        k = self._key(f)
        if k not in self.gcache: self.gcache[k] = Graph(f)
        return self.gcache[k]

    def _new(self, f, gnode, e):
        if len(self.ev) > self.maxnodes: raise TooBig(self.root['qname'])
        self.ev.append(e); self.fn.append(f); self.gn.append(gnode)
        return len(self.ev) - 1

    def _inline(self, f, stack, binds, depth, kill_ret=None):
        """kill_ret: predicate on a `ret` event's constant value; matching returns become dead ends (used to
        specialise a callee to 'returns truthy' / 'returns falsy' when the caller branches on its result)"""
        G = self.graph(f)
        if G.entry is None:
            n = self._new(f, None, {'k': 'empty'})
            return n, [n]
        ids = {}
        order = list(G.ev.keys())
        for gnode in order:
            ids[gnode] = self._new(f, gnode, G.ev[gnode])
        lam_by_line = {}
        lam_vars = {}
        for gnode in order:
            e = G.ev[gnode]
            if e.get('k') == 'lambda': lam_by_line[e['line']] = e['fid']
        for gnode in order:
            e = G.ev[gnode]
            if e.get('k') == 'decl':
                for v in e['vars']:
                    p = (v.get('init') or {}).get('p', '')
                    m = re.match(r'<lambda@(\d+)>', p or '')
                    if m and int(m.group(1)) in lam_by_line: lam_vars[v['var']] = lam_by_line[int(m.group(1))]
        # scope guards: var -> (decl node, lambda, release nodes)
        guards = {}
        gv = guard_vars(f)
        for gnode in order:
            e = G.ev[gnode]
            if e.get('k') == 'decl':
                for v in e['vars']:
                    if v['var'] in gv and v['var'] in lam_vars and lam_vars[v['var']] in self.F.lambdas:
                        guards[v['var']] = [gnode, self.F.lambdas[lam_vars[v['var']]], set()]
        guard_resets = {}
        if guards:
            for gnode in order:
                e = G.ev[gnode]
                if e.get('k') == 'call' and e['callee'].get('name') in ('release', 'reset') and e['callee'].get('base') in guards:
                    guards[e['callee']['base']][2].add(gnode)
                    if e['callee'].get('name') == 'reset': guard_resets[gnode] = guards[e['callee']['base']][1]   # reset(): run now, then disarm
        for gnode in order:
            e = G.ev[gnode]
            n = ids[gnode]
            succs = [(ids[m], lab) for m, lab in G.succ.get(gnode, [])]
            if guards and depth < self.maxdepth:
                # (a) normal scope exit of a guard that was not released on every path: its lambda runs
                if e.get('k') == 'scope_end' and e.get('var') in guards:
                    dn, lam, rel = guards[e['var']]
                    if self._key(lam) not in stack and not (rel and G.dominated_by_any(gnode, rel)):
                        optional = bool(rel) and any(gnode in G.reach(x) for x in rel)
                        centry, cexits = self._inline(lam, stack + (self._key(lam),), {}, depth + 1)
                        r = self._new(f, gnode, {'k': 'return', 'line': e.get('line'), 'of': 'scope_guard'})
                        self.succ[n].append((centry, 'call'))
                        for x in cexits: self.succ[x].append((r, 'ret'))
                        for m, lab in succs:
                            self.succ[r].append((m, lab))
                            if optional: self.succ[n].append((m, lab))
                        continue
                # (b) exceptional edge: guards armed at this point run (innermost first) before the handler
                if any(lab == 'exc' for _, lab in succs):
                    armed = [(dn, lam) for v, (dn, lam, rel) in guards.items()
                             if dn != gnode and G.dominated_by_any(gnode, {dn}) and not (rel and G.dominated_by_any(gnode, rel))
                             and self._in_same_try(G, dn, gnode) and self._key(lam) not in stack]
                    if armed:
                        armed.sort(key=lambda x: -(G.ev[x[0]].get('line') or 0))
                        first = None; prev = None
                        for dn, lam in armed:
                            centry, cexits = self._inline(lam, stack + (self._key(lam),), {}, depth + 1)
                            r = self._new(f, gnode, {'k': 'return', 'line': e.get('line'), 'of': 'scope_guard(unwind)'})
                            for x in cexits: self.succ[x].append((r, 'ret'))
                            if first is None: first = centry
                            else: self.succ[prev].append((centry, 'exc'))
                            prev = r
                        handlers = [m for m, lab in succs if lab == 'exc']
                        for m in handlers: self.succ[prev].append((m, 'exc'))
                        succs = [(m, lab) for m, lab in succs if lab != 'exc'] + [(first, 'exc')]
            if kill_ret is not None and e.get('k') == 'ret' and kill_ret(_const_truth(e.get('v'))):
                continue        # this return cannot happen in the specialised copy
            callees = []
            if e.get('k') == 'call' and depth < self.maxdepth:
                if gnode in guard_resets: callees = [(guard_resets[gnode], {})]
                else: callees = self.resolve(f, e, binds, lam_by_line, lam_vars)
            callees = [(g, b) for g, b in callees if self._key(g) not in stack]
            if callees:
                test = self._result_test(G, gnode, e, binds, lam_by_line, lam_vars, depth) if len(callees) == 1 else None
                if test:
                    chain, tnode, pol = test
                    g, b = callees[0]
                    self.inlined[g['qname']] += 1
                    for version in (True, False):
                        # specialised copy of the callee: returns whose constant truth contradicts `version` are dead
                        centry, cexits = self._inline(g, stack + (self._key(g),), b, depth + 1,
                                                      kill_ret=(lambda t, version=version: t is not None and t != version))
                        r = self._new(f, gnode, {'k': 'return', 'line': e.get('line'), 'of': e['callee'].get('name'), 'truth': version})
                        self.succ[n].append((centry, 'call'))
                        for x in cexits: self.succ[x].append((r, 'ret'))
                        prev = r
                        for cg in chain:
                            c = self._new(f, cg, G.ev[cg])
                            self.succ[prev].append((c, None)); prev = c
                        tcl = self._new(f, tnode, G.ev[tnode])
                        self.succ[prev].append((tcl, None))
                        want = version if pol else (not version)
                        for m, lab in G.succ.get(tnode, []):
                            if lab == want: self.succ[tcl].append((ids[m], lab))
                    for m, lab in succs:
                        if lab == 'exc': self.succ[n].append((m, lab))
                    continue
                r = self._new(f, gnode, {'k': 'return', 'line': e.get('line'), 'of': e['callee'].get('name')})
                for g, b in callees:
                    self.inlined[g['qname']] += 1
                    centry, cexits = self._inline(g, stack + (self._key(g),), b, depth + 1)
                    self.succ[n].append((centry, 'call'))
                    for x in cexits: self.succ[x].append((r, 'ret'))
                for m, lab in succs:
                    if lab == 'exc': self.succ[n].append((m, lab))
                    else: self.succ[r].append((m, lab))
            else:
                for m, lab in succs: self.succ[n].append((m, lab))
        exits = [ids[G.exit]] if G.exit in ids else []
        return ids[G.entry], exits

    def _in_same_try(self, G, decl_node, node):
        """is the guard declared inside the try region whose handler `node`'s exceptional edge enters?"""
        tries = G.f.get('try', [])
        ln = G.ev[node].get('line') or 0
        dl = G.ev[decl_node].get('line') or 0
        inner = [tr for tr in tries if tr['try_begin'] <= ln <= tr['try_end']]
        if not inner: return False
        tr = max(inner, key=lambda x: x['try_begin'])
        return tr['try_begin'] <= dl <= tr['try_end']

    def _result_test(self, G, gnode, e, binds, lam_by_line, lam_vars, depth):
        """is the result of call `e` branched on right after the call (`if (call())`, `if (auto x = call())`,
        `if (!call())`)?  -> (chain of plain nodes between call and the terminator, terminator node, polarity)"""
        chain = []
        cur = gnode
        var = None
        for _ in range(8):
            nx = [m for m, lab in G.succ.get(cur, []) if lab != 'exc']
            if len(nx) != 1: return None
            cur = nx[0]
            ev = G.ev[cur]
            if ev.get('k') == 'term':
                c = ev.get('cond')
                if c is None or ev.get('kind') not in ('IfStmt', 'ConditionalOperator'):
                    if c is None and not G.blocks[cur[0]].get('term'):   # plain fall-through to the next block
                        chain.append(cur); continue
                    return None
                pol = _pol_call_or_var(c, e.get('eid'), var)
                if pol is None: return None
                return chain, cur, pol
            if ev.get('k') == 'call':
                if self.resolve(G.f, ev, binds, lam_by_line, lam_vars): return None
            if ev.get('k') == 'decl':
                for v in ev['vars']:
                    init = v.get('init') or {}
                    if init.get('eid') == e.get('eid'): var = v['var']
            if ev.get('k') in ('ret', 'assign'): return None
            chain.append(cur)
        return None

    # ------------------------------------------------------------------ call resolution
    def lambdas_in(self, e, lam_by_line):
        out = []
        def walk(x):
            if isinstance(x, dict):
                for p in (x.get('p'), x.get('name')):
                    if isinstance(p, str):
                        for m in re.finditer(r'<lambda@(\d+)>', p):
                            if int(m.group(1)) in lam_by_line and lam_by_line[int(m.group(1))] not in out: out.append(lam_by_line[int(m.group(1))])
                for v in x.values(): walk(v)
            elif isinstance(x, list):
                for v in x: walk(v)
        walk(e.get('args')); walk(e.get('callee'))
        return out

    def resolve(self, f, e, binds, lam_by_line, lam_vars):
        """-> [(callee function, parameter bindings for lambdas passed in)]"""
        F = self.F
        ce = e['callee']; k = ce.get('kind'); name = ce.get('name') or ''
        lams = [F.lambdas[x] for x in self.lambdas_in(e, lam_by_line) if x in F.lambdas]
        # call of a lambda: bound parameter, local lambda variable, immediately invoked
        if k == 'localvar':
            if name in binds: return [(binds[name], {})]
            if name in lam_vars and lam_vars[name] in F.lambdas: return [(F.lambdas[lam_vars[name]], {})]
            return []
        if k == 'expr':
            if name.startswith('<lambda@') and lams: return [(lams[0], {})]
            if name in binds: return [(binds[name], {})]
            return []
        base = name.split('::')[-1]
        if base in HIGHER_ORDER:
            out = [(g, {}) for g in lams]
            # lambda variables passed by name
            for a in e.get('args', []):
                p = a.get('p') if isinstance(a, dict) else None
                if p in lam_vars and lam_vars[p] in F.lambdas: out.append((F.lambdas[lam_vars[p]], {}))
                if p in binds: out.append((binds[p], {}))
            return out
        if base in NEVER_INLINE: return []
        cands = []
        if k == 'member':
            q = ce.get('qname', '')
            cands = [g for g in F.by_q.get(q, []) if g.get('blocks') and not g.get('lambda')]
            if len(cands) > 1:
                same = [g for g in cands if len(g.get('params', [])) == len(e.get('args', []))]
                if same: cands = same
        elif k == 'dep_member':
            b = ce.get('base', '')
            typed = None
            if base in HANDLERS or base == 'start':
                # only a call on this object / a family object, never on the outer receiver
                if b != 'this' and not re.search(r'(^|\.)(op_?|self|this)$', b):
                    typed = self._field_record(f, b)
                    if typed is None: return []
            pool = [g for fam in self.families for g in F.by_family.get(fam, []) if g['name'] == base and not g.get('lambda') and g.get('blocks')]
            if typed is not None:
                pool = [g for g in pool if g.get('record') == typed]
            if b == 'this':
                same = [g for g in pool if g.get('record') == f.get('record')]
                if same: pool = same
                else:
                    # a method of a base class of this record
                    bases = self._bases(f.get('record'))
                    inb = [g for g in pool if g.get('record') in bases]
                    if inb: pool = inb
            cands = pool
            if len(cands) > 1:
                same = [g for g in cands if len(g.get('params', [])) == len(e.get('args', []))]
                if same: cands = same
            if not cands and base not in HANDLERS: self.unresolved.append((f, e))
        elif k in ('func', 'unresolved', 'dep_scope', 'decl'):
            q = ce.get('qname', '')
            cands = [g for g in F.by_q.get(q, []) if g.get('blocks') and not g.get('lambda')] if k == 'func' else []
            if not cands:
                cands = [g for fam in self.families for g in F.by_family.get(fam, []) if g['name'] == base and not g.get('lambda') and g.get('blocks')]
            if len(cands) > 1:
                same = [g for g in cands if len(g.get('params', [])) == len(e.get('args', []))]
                if same: cands = same
        cands = [g for g in cands if g['_family'] in self.families]
        if len(cands) > 1 and k in ('dep_member', 'unresolved', 'dep_scope', 'func'):
            # several records define this name: the lexically nearest record wins (nested operation classes)
            here = f.get('record') or (f.get('parent_fn') or '').split('@')[0].rsplit('::', 1)[0]
            def common(q):
                n = 0
                for x, y in zip((q or '').split('::'), here.split('::')):
                    if x != y: break
                    n += 1
                return n
            best = max(common(g.get('record') or g['qname']) for g in cands)
            cands = [g for g in cands if common(g.get('record') or g['qname']) == best]
        out = []
        for g in cands[:4]:
            b = {}
            if lams:
                # bind lambdas to the callee's callable parameters (those it invokes)
                called = {ev['callee'].get('name') for _, ev in self.graph(g).ev.items() if ev.get('k') == 'call' and ev['callee'].get('kind') in ('localvar', 'expr')}
                ps = [p['name'] for p in g.get('params', []) if p['name'] in called]
                for pn, lam in zip(ps, lams): b[pn] = lam
            out.append((g, b))
        return out

    def _field_record(self, f, basepath):
        """the family record that is the declared type of field `x` for a base path ending in .x (x declared in f's record)"""
        fld = last_field(basepath)
        here = f.get('record') or (f.get('parent_fn') or '').split('@')[0].rsplit('::', 1)[0]
        for r in self.F.rec_by_q.get(here, []):
            for fl in r['fields']:
                if fl['name'] != fld: continue
                t = (fl.get('wtype') or fl.get('type', '')).strip()
                if re.fullmatch(r'(const\s+)?[A-Za-z]*Receiver\d?\s*&{0,2}', t): return None     # the outer receiver (a template parameter)
                best = None
                for rr in self.F.recs:
                    if rr['_family'] not in self.families: continue
                    nm = rr['qname'].split('::')[-1]
                    if nm in ('type',): nm = rr['qname'].split('::')[-2]
                    for cand in {nm, nm.lstrip('_')}:
                        if cand and re.match(r'(const\s+)?(typename\s+)?' + re.escape(cand) + r'\b', t):
                            if best is None or len(rr['qname']) > len(best): best = rr['qname']
                return best
        return None

    def _bases(self, rq):
        out = set()
        for r in self.F.rec_by_q.get(rq or '', []):
            for b in r.get('bases', []):
                for rr in self.F.recs:
                    nm = rr['qname'].split('::')[-1]
                    if rr['_family'] in self.families and re.search(r'\b' + re.escape(nm) + r'\b', b): out.add(rr['qname'])
        return out

    # ------------------------------------------------------------------ queries
    def reach(self, start, blocked=(), blocked_edges=(), skip_exc=False):
        blocked = set(blocked); blocked_edges = set(blocked_edges)
        seen = set(); work = list(start) if isinstance(start, (list, set, tuple)) else [start]
        while work:
            n = work.pop()
            if n in seen or n in blocked: continue
            seen.add(n)
            for m, lab in self.succ.get(n, []):
                if (n, m) in blocked_edges: continue
                if skip_exc and lab == 'exc': continue
                if m not in seen and m not in blocked: work.append(m)
        return seen

    def nodes(self, pred):
        return [n for n, e in enumerate(self.ev) if pred(e)]

    def terminals(self):
        out = []
        for n, e in enumerate(self.ev):
            if e.get('k') != 'call': continue
            q = e['callee'].get('qname')
            if q in TERMQ: out.append((n, TERMQ[q], (e['args'][0].get('p', '') if e.get('args') else '')))
            elif e['callee'].get('kind') in ('localvar',) and e.get('args') and re.search(r'(receiver_?|rec_|receiver\(\))$', e['args'][0].get('p', '') or '') \
                    and re.match(r'set_|cpo$|signal', e['callee'].get('name', '')):
                out.append((n, 'any', e['args'][0].get('p', '')))
        return out

    def constexpr_conds(self):
        """distinct `if constexpr` condition texts -> [(term node, true succ, false succ)]"""
        out = collections.defaultdict(list)
        for n, e in enumerate(self.ev):
            if e.get('k') == 'term' and e.get('constexpr'):
                t = f_ = None
                for m, lab in self.succ.get(n, []):
                    if lab is True: t = m
                    elif lab is False: f_ = m
                out[re.sub(r'\s+', '', e.get('text', ''))].append((n, t, f_))
        return out

    def line(self, n):
        e = self.ev[n]
        return e.get('line') or self.fn[n]['line']

    def where(self, n):
        return '%s:%s' % (self.fn[n]['file'], self.line(n))

    def path_to(self, target, blocked=()):
        """one path entry -> target avoiding blocked nodes, as source locations (for reports)"""
        blocked = set(blocked)
        prev = {self.entry: None}; work = collections.deque([self.entry])
        while work:
            n = work.popleft()
            if n == target: break
            for m, lab in self.succ.get(n, []):
                if m in prev or m in blocked: continue
                prev[m] = n; work.append(m)
        if target not in prev: return []
        path = []; n = target
        while n is not None:
            e = self.ev[n]
            if e.get('k') in ('call', 'return', 'assign') or n == target:
                d = e['callee'].get('name') if e.get('k') == 'call' else e.get('k')
                path.append('%s %s [%s]' % (self.where(n), d, self.fn[n]['name']))
            n = prev[n]
        path.reverse()
        out = []
        for p in path:
            if not out or out[-1] != p: out.append(p)
        return out[-14:]
